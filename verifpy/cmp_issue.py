"""Comparators for the issuance handshake (C04, C05, C06, C07)."""

ORACLES = {
    "C04": {"holder_accepts_issued", "fresh_e", "fresh_v", "cl_equation", "e_prime_in_range", "vpp_bits", "m2_context",
            "model_issuer_accepted", "issuer_covers_every_attribute"},
    "C05": {"issuer_rejects_altered", "holder_rejects_altered", "holder_rejects_altered_key", "holder_accepts_issued", "key_proof_accepted",
            "reference_issuer_verdict", "reference_holder_accepted", "holder_no_panic", "issuer_covers_every_attribute"},
    "C06": {"one_r_per_attribute", "revocation_part_presence", "key_proof_accepted", "rev_key_corresponds",
            "rev_generators_distinct", "holder_rejects_altered_key", "key_oracle", "key_proof_accepted", "key_proof_covers_all"},
    "C07": {"holder_accepts_issued", "reference_issuer_verdict", "reference_holder_accepted"},
    "C20": {"issuer_no_panic", "holder_no_panic"},
}


def report(prop, case, F, variant):
    for o in case["impl"].get("oracles", []):
        if o["name"] in ORACLES.get(prop, ()):
            F.oracle_failure(o["name"], o["detail"], case, variant)


def bad_model(model, case, F, variant, final):
    if model is None or "error" in model:
        if final:
            F.mismatch("driver", "model driver failed on %s: %s" % (case["id"], (model or {}).get("error")), case, variant)
        return True
    return False


def accept(x):
    return x.get("status") == "ok" and x.get("valid", True) is not False


def cmp_bool_check(prop, case, model, mat, F, variant, final):
    """blinded_check / key_proof_check: impl accepted (ok) vs model verdict"""
    if not final:
        return True
    report(prop, case, F, variant)
    if bad_model(model, case, F, variant, final):
        return False
    ia, ma = accept(case["impl"]), accept(model)
    if ia != ma:
        F.mismatch(case["op"], "%s (%s): implementation %s, model %s" % (case["id"], case.get("class"), "accepts" if ia else "rejects", "accepts" if ma else "rejects"), case, variant, model)
    if case["impl"]["status"] == "panic" or model.get("status") == "panic":
        if case["impl"]["status"] != model.get("status"):
            F.mismatch(case["op"] + "_panic", "%s: implementation %s, model %s" % (case["id"], case["impl"]["status"], model.get("status")), case, variant, model)
    return True


def cmp_sig_check(prop, case, model, mat, F, variant, final):
    if not final:
        return True
    report(prop, case, F, variant)
    if bad_model(model, case, F, variant, final):
        return False
    impl = case["impl"]
    honest = case.get("class", {}).get("kind", "").startswith("honest")
    ia, ma = impl["status"] == "ok", accept(model["holder"])
    if ia != ma:
        F.mismatch("sig_check", "%s (%s): holder-side processing: implementation %s, model %s" % (case["id"], case.get("class"), impl["status"], model["holder"]), case, variant, model)
    if honest and prop in ("C04", "C07"):
        # the model's independent statements about an issued signature
        if not accept(model["equation"]):
            F.oracle_failure("cl_equation", "%s: issued signature does not satisfy Z = A^e S^v Rctxt^m2 prod R^m (model arithmetic)" % case["id"], case, variant)
        if not (model["e_prime"] and model["e_in_range"] and model["e_odd"]):
            F.oracle_failure("e_prime_in_range", "%s: e prime=%s in [2^596,2^596+2^119)=%s" % (case["id"], model["e_prime"], model["e_in_range"]), case, variant)
        if "vpp_bits" in model and model["vpp_bits"] != model["vpp_expected_bits"]:
            F.oracle_failure("vpp_bits", "%s: v'' has %s bits, expected exactly %s" % (case["id"], model["vpp_bits"], model["vpp_expected_bits"]), case, variant)
        if "m2_ok" in model and not model["m2_ok"]:
            F.oracle_failure("m2_context", "%s: m2 is not the documented hash of prover id and revocation index (model %s...)" % (case["id"], model["m2_model"][:20]), case, variant)
    return True


def cmp_sign(prop, case, model, mat, F, variant, final):
    """reference issuer: the model signs, the real holder processes"""
    if bad_model(model, case, F, variant, final):
        return False
    if model.get("status") != "ok":
        if final and case["impl"]["expect_accept"]:
            F.mismatch("model_sign", "%s: model issuer failed" % case["id"], case, variant, model)
        return False
    ex = case["impl"]["exec"]
    inp = dict(ex["in"])
    inp["signature"] = model["signature"]
    inp["proof"] = model["proof"]
    r = mat.call(ex["op"], inp)
    if not final:
        return True
    got = (r or {}).get("status")
    want = case["impl"]["expect_accept"]
    v = case["impl"]["variant"]
    if got == "panic":
        F.oracle_failure("holder_no_panic", "process_credential_signature panicked on a reference-issuer signature (%s): %s" % (v, r.get("msg")), case, variant)
    elif (got == "ok") != want:
        F.oracle_failure("reference_issuer_verdict", "reference issuer variant '%s': holder %s, expected %s (%s)" %
                         (v, "accepts" if got == "ok" else "rejects", "accept" if want else "reject", (r or {}).get("msg", "")[:120]), case, variant)
    return True


def cmp_blind_prove(prop, case, model, mat, F, variant, final):
    if bad_model(model, case, F, variant, final):
        return False
    if model.get("status") != "ok":
        if final:
            F.mismatch("model_blind", "%s: model holder failed" % case["id"], case, variant, model)
        return False
    ex = case["impl"]["exec"]
    inp = dict(ex["in"])
    inp["blinded"] = model["blinded"]
    inp["proof"] = model["proof"]
    r = mat.call(ex["op"], inp)
    if not final:
        return True
    if (r or {}).get("status") != "ok":
        F.oracle_failure("reference_holder_accepted", "the real issuer refused blinded secrets + proof computed by the model holder: %s" % (r,), case, variant)
    return True


def cmp_key_check(prop, case, model, mat, F, variant, final):
    if not final:
        return True
    report(prop, case, F, variant)
    if bad_model(model, case, F, variant, final):
        return False
    m = model
    problems = []
    for k in ("p_prime", "q_prime", "p_safe_prime", "q_safe_prime", "distinct", "n_is_product", "s_is_qr", "s_generates",
              "z_in_span", "rctxt_in_span", "r_in_span"):
        if not m.get(k):
            problems.append(k)
    lp = m["large_prime"]
    # the OpenSSL backend draws (LARGE_PRIME+1)-bit safe primes, the pure-Rust one LARGE_PRIME-bit: both readings
    for k in ("p_bits", "q_bits"):
        if m[k] not in (lp, lp + 1):
            problems.append("%s=%s" % (k, m[k]))
    if sorted(case["impl"]["attrs"]) != m["r_keys"]:
        problems.append("r_keys")
    if problems:
        F.oracle_failure("key_oracle", "generated credential definition fails the independent oracle: %s" % ", ".join(problems), case, variant)
    return True


def cmp_none(prop, case, model, mat, F, variant, final):
    if final:
        report(prop, case, F, variant)
    return False


def cmp_ctx(prop, case, model, mat, F, variant, final):
    """credential context m2: the hook's value against the model's documented hash, item by item"""
    if not final:
        return True
    report(prop, case, F, variant)
    if bad_model(model, case, F, variant, final):
        return False
    bad = [(it, a, b) for it, a, b in zip(case["in"]["items"], case["impl"]["m2"], model.get("m2", [])) if a != b]
    if len(model.get("m2", [])) != len(case["impl"]["m2"]):
        F.mismatch("ctx", "%s: model returned %d values for %d items" % (case["id"], len(model.get("m2", [])), len(case["impl"]["m2"])), case, variant)
    for it, a, b in bad[:3]:
        F.oracle_failure("m2_context", "%s: credential context for prover id %r, revocation index %r is %s..., the documented hash H(enc(LE(sha(id))) || enc(LE(sha(idx)))) is %s... (%d of %d items differ)" %
                         (case["id"], it["prover_id"], it["rev_idx"], a[:24], b[:24], len(bad), len(case["impl"]["m2"])), case, variant)
    return True



def cmp_key_prove(prop, case, model, mat, F, variant, final):
    """reference issuer for the key proof: the model builds key + proof, the real holder judges"""
    if bad_model(model, case, F, variant, final):
        return False
    if model.get("status") != "ok":
        if final:
            F.mismatch("model_key_prove", "%s: model key prover failed: %s" % (case["id"], model), case, variant, model)
        return False
    ex = case["impl"]["exec"]
    inp = dict(ex["in"])
    inp["pk"] = model["pk"]
    inp["proof"] = model["proof"]
    r = mat.call(ex["op"], inp)
    if r is None or not final:
        return r is not None
    real = (r.get("status") == "ok")
    want = bool(case["impl"].get("expect_accept"))
    v = case["impl"].get("variant")
    if real and not want:
        F.oracle_failure("holder_rejects_altered_key", "%s: blind_credential_secrets accepted a key whose correctness proof is '%s' (reference issuer, consistent challenge)" % (case["id"], v), case, variant)
    if not real and want:
        F.oracle_failure("key_proof_accepted", "%s: blind_credential_secrets refused the reference issuer's '%s' key proof: %s" % (case["id"], v, r.get("msg")), case, variant)
    if r.get("status") == "panic":
        F.oracle_failure("holder_no_panic", "%s: blind_credential_secrets panicked on the reference issuer's '%s' key proof: %s" % (case["id"], v, r.get("msg")), case, variant)
    ma = accept(model.get("model_verdict"))
    if ma != real:
        F.mismatch("key_proof_check", "%s (%s): implementation %s, model %s" % (case["id"], v, "accepts" if real else "rejects", "accepts" if ma else "rejects"), case, variant, model.get("model_verdict"))
    return True


def cmp_holder_nr(prop, case, model, mat, F, variant, final):
    """the holder's pairing-side check of a revocation signature (process_credential_signature with key, registry and
    witness) against the exponent-form model of _test_witness_signature"""
    if not final:
        return True
    report(prop, case, F, variant)
    if bad_model(model, case, F, variant, final):
        return False
    real, ma = bool(case["impl"].get("accept")), bool(model.get("accept"))
    if real != ma:
        F.mismatch("holder_nr_check", "%s ('%s'): process_credential_signature %s (%s), the model of _test_witness_signature %s (equations hold: %s)" %
                   (case["id"], case.get("class", {}).get("alteration"), "accepts" if real else "refuses", case["impl"].get("status"),
                    "accepts" if ma else "refuses", model.get("eqs")), case, variant, model)
    return True


COMPARATORS = {"holder_nr_check": cmp_holder_nr, "key_prove": cmp_key_prove, "ctx": cmp_ctx, "blinded_check": cmp_bool_check, "key_proof_check": cmp_bool_check, "sig_check": cmp_sig_check,
               "sign": cmp_sign, "blind_prove": cmp_blind_prove, "key_check": cmp_key_check, "issue_failed": cmp_none}
