"""Comparators for C19 (group-order scalars, point/pairing wrappers, four_squares).

Three sources are compared for every scalar case: the real wrappers (harness, `impl`), the Lean
model `CL.Sc` (`model`) and, as a direct oracle that does not involve the model, Python
integers modulo the group order.  Point and pairing laws are evaluated inside the harness on
the real wrappers (named oracles in `impl.oracles`); only the scalars used in those laws are
compared with the model here.  `four_squares` results are compared root by root (the model
mirrors the search order); the sum of squares is checked by the harness itself.
"""

R = 0x2523648240000001BA344D8000000007FF9F800000000010A10000000000000D


def _report_oracles(case, F, variant):
    for o in (case.get("impl") or {}).get("oracles", []) or []:
        F.oracle_failure(o["name"], o["detail"], case, variant)


def _driver_failed(model, case, F, variant):
    if model is None or "error" in model:
        F.mismatch("driver", "model driver failed on %s: %s" % (case["in"].get("op", case["op"]), (model or {}).get("error")), case, variant)
        return True
    return False


def py_expected(op, args):
    """value the wrapper must return if scalars are the integers modulo R (None: not decided here)"""
    try:
        if op in ("add", "sub", "mul", "pow"):
            a, b = int(args[0], 16), int(args[1], 16)
            return {"add": (a + b) % R, "sub": (a - b) % R, "mul": a * b % R, "pow": pow(a, b, R)}[op]
        if op == "inv":
            a = int(args[0], 16)
            return pow(a, -1, R) if a % R else "err"
        if op == "neg":
            return (-int(args[0], 16)) % R
        if op == "from_string":
            t = args[0]
            if 1 <= len(t) <= 71 and all(c in "0123456789abcdefABCDEF" for c in t):
                return int(t, 16) % R
            return "err"
        if op == "from_bytes":
            return int(args[0] or "0", 16) % R if len(args[0]) <= 64 else "err"
        if op == "new_u32":
            return int(args[0])
        if op == "bignum_reduce":
            return int(args[0]) % R
    except Exception:
        return None
    return None


def cmp_sc_op(prop, case, model, mat, F, variant, final):
    impl = case["impl"]
    op = case["in"]["op"]
    args = case["in"]["args"]
    if not final:
        return impl.get("status") == "ok"
    _report_oracles(case, F, variant)
    # ---- direct oracle: Python integers modulo R
    exp = py_expected(op, args)
    if exp == "err":
        if impl["status"] != "err":
            F.oracle_failure("scalar_vs_integers_mod_r", "op=%s arg=%r: must be refused with Err, got %s" % (op, str(args[0])[:80], impl["status"]), case, variant)
    elif exp is not None:
        if impl["status"] != "ok":
            F.oracle_failure("scalar_vs_integers_mod_r", "op=%s args=%s: %s instead of a value" % (op, [str(a)[:70] for a in args], impl["status"]), case, variant)
        elif int(impl["val"], 16) != exp:
            F.oracle_failure("scalar_vs_integers_mod_r", "op=%s args=%s: wrapper %s, integers mod r %064x" % (op, [str(a)[:70] for a in args], impl["val"], exp), case, variant)
    if op == "to_string" and impl["status"] == "ok":
        a = int(args[0], 16)
        if impl["str"] != "%064X" % a:
            F.oracle_failure("scalar_vs_integers_mod_r", "op=to_string a=%s: %r is not the 64-digit upper-case hex" % (args[0], impl["str"]), case, variant)
    # ---- correspondence with the Lean model
    if _driver_failed(model, case, F, variant):
        return False
    if model["status"] != impl["status"]:
        F.mismatch("scalar_status", "op=%s args=%s: impl %s (%s) vs model %s" % (op, [str(a)[:70] for a in args], impl["status"], impl.get("msg", "")[:60], model["status"]), case, variant, model)
        return False
    if impl["status"] == "ok":
        key = "str" if op == "to_string" else "val"
        if impl.get(key) != model.get(key):
            F.mismatch("scalar_value", "op=%s args=%s: impl %s vs model %s" % (op, [str(a)[:70] for a in args], impl.get(key), model.get(key)), case, variant, model)
        return True
    return False


def cmp_pair_case(prop, case, model, mat, F, variant, final):
    impl = case["impl"]
    if not final:
        return impl.get("status") == "ok"
    _report_oracles(case, F, variant)
    if _driver_failed(model, case, F, variant):
        return False
    if impl.get("status") != "ok":
        return False
    for k, v in impl["scalars"].items():
        if model.get(k) != v:
            F.mismatch("pair_scalars", "scalar %s used in the point/pairing laws for a=%s b=%s: impl %s vs model %s" % (k, case["in"]["a"], case["in"]["b"], v, model.get(k)), case, variant, model)
    # the same scalars against Python integers
    a, b = int(case["in"]["a"], 16), int(case["in"]["b"], 16)
    exp = {"ab": a * b % R, "a_plus_b": (a + b) % R, "a_minus_b": (a - b) % R, "r_minus_1": R - 1}
    for k, e in exp.items():
        if int(impl["scalars"][k], 16) != e:
            F.oracle_failure("scalar_vs_integers_mod_r", "pair_case scalar %s for a=%s b=%s: wrapper %s, integers mod r %064x" % (k, case["in"]["a"], case["in"]["b"], impl["scalars"][k], e), case, variant)
    return True


def _deltas(inp):
    if "delta" in inp:
        return [int(inp["delta"])]
    if "deltas" in inp:
        return [int(x) for x in inp["deltas"]]
    return list(range(int(inp["lo"]), int(inp["lo"]) + int(inp["n"])))


def cmp_four_squares(prop, case, model, mat, F, variant, final):
    impl = case["impl"]
    if not final:
        return True
    _report_oracles(case, F, variant)
    if _driver_failed(model, case, F, variant):
        return False
    ds = _deltas(case["in"])
    ri = impl["results"]
    rm = model["results"] if "results" in model else [model.get("roots", model.get("status"))]
    if len(ri) != len(ds) or len(rm) != len(ds):
        F.mismatch("four_squares_shape", "%d deltas, %d impl results, %d model results" % (len(ds), len(ri), len(rm)), case, variant)
        return False
    bad = 0
    for d, a, b in zip(ds, ri, rm):
        if b == "skipped":
            # the harness asked the model not to run this delta (predicted to be too slow for the
            # model); the implementation result, if any, was checked by the direct oracles
            continue
        if a != b:
            bad += 1
            if bad <= 3:
                small = dict(case)
                small["in"] = {"delta": d, "mode": case["in"]["mode"]}
                small["impl"] = {"results": [a], "oracles": []}
                F.mismatch("four_squares_roots", "four_squares(%d): impl %s vs model %s" % (d, a, b), small, variant, {"results": [b]})
        # model-level statement, checked on what the model returned as well
        if isinstance(b, list) and (d < 0 or sum(x * x for x in b) != d):
            F.oracle_failure("model_four_squares_sum", "model fourSquares(%d) = %s" % (d, b), case, variant)
    return any(isinstance(x, list) for x in ri)


COMPARATORS = {
    "sc_op": cmp_sc_op,
    "pair_case": cmp_pair_case,
    "four_squares": cmp_four_squares,
}
