"""Comparators for the big-number layer (C17 integer arithmetic, C18 back-end equivalence).

Case line (stream `bn`):  {"op": "bn_op", "in": {"backend", "op", "args"}, "impl": {"status", "val"}}
Driver answer:            {"status", "val", "spec": {"status", "val"}}   (model of that back-end + Spec)

Per case (both properties):
  * correspondence  impl == model of its back-end          else F.mismatch("bn_model:<op>")
C17 additionally:
  * property        impl == Spec (integer arithmetic)      else F.oracle_failure("bn_spec:<op>")
                    when the operands are in the domain of the property statement; differences
                    outside it (bit operations on negative values, exponents >= 2^64 ...) are
                    only counted (`STATS`)
  * sanity          Spec as evaluated by Lean == Python's integers (independent engine)
                    else F.mismatch("bn_spec_vs_python:<op>")
C18: `post_compare` receives the cases of both builds (same seed, same generator) and compares
the two implementations' results line by line: F.oracle_failure("bn_backends_differ:<op>").

Detail strings carry `backend=… op=… class=<narrow operand class>` so that known findings can be
keyed narrowly.
"""
import math
import sys

if hasattr(sys, "set_int_max_str_digits"):
    sys.set_int_max_str_digits(0)

STATS = {}


def stat(k, n=1):
    STATS[k] = STATS.get(k, 0) + n


def canon(r):
    if not isinstance(r, dict) or "status" not in r:
        return ("?", repr(r))
    return (r["status"], r.get("val") if r["status"] == "ok" else None)


def show(r):
    st, v = canon(r)
    s = "%s:%s" % (st, v)
    return s if len(s) < 90 else s[:60] + "...(%d chars)" % len(s)


def Z(x):
    return int(x)


# ------------------------------------------------------------------ operand classes / domain

DEC = "0123456789"
HEX = "0123456789abcdefABCDEF"


def sign_pattern(args):
    out = []
    for a in args:
        if isinstance(a, bool):
            out.append("T" if a else "F")
        elif isinstance(a, int):
            out.append("w")
        else:
            try:
                v = int(a)
                out.append("-" if v < 0 else ("0" if v == 0 else "+"))
            except Exception:
                out.append("s")
    return "signs=" + "".join(out)


def klass(op, a):
    """narrow operand class used in finding details"""
    try:
        if op in ("from_dec", "from_hex"):
            s = a[0]
            digits = DEC if op == "from_dec" else HEX
            if "\x00" in s:
                return "nul-char"
            if s[:1] == "+":
                return "leading-plus"
            body = s[1:] if s[:1] == "-" else s
            if "_" in body and body[:1] in digits and body[:1] != "":
                return "underscore"
            if body and body[0] in digits and any(c not in digits for c in body):
                return "trailing-garbage"
            return "text"
        if op == "inverse":
            x, n = Z(a[0]), Z(a[1])
            if abs(n) == 1:
                return "modulus=%d" % n
            if x < 0:
                return "operand<0"
        if op == "mod_div":
            x, b, n = Z(a[0]), Z(a[1]), Z(a[2])
            if abs(n) == 1:
                return "modulus=%d" % n
            if b < 0:
                return "divisor<0"
        if op == "mod_exp":
            x, e, n = Z(a[0]), Z(a[1]), Z(a[2])
            if n == 0 and e >= 0:
                return "modulus=0,exp>=0"
            if abs(n) == 1 and e < 0:
                return "|modulus|=1,exp<0"
            if x < 0 and e < 0:
                return "base<0,exp<0"
        if op == "exp":
            x, k = Z(a[0]), Z(a[1])
            if x == 0 and k == 0:
                return "base=0,exp=0"
            if x == 0 and k < 0:
                return "base=0,exp<0"
            if k < 0:
                return "exp<0"
            if k >= 2 ** 64:
                return "exp>=2^64"
        if op in ("increment", "decrement") and Z(a[0]) < 0:
            return "operand<0"
        if op == "to_bytes" and Z(a[0]) == 0:
            return "zero"
        if op == "to_hex":
            return "odd-digit-count" if len("%x" % abs(Z(a[0]))) % 2 == 1 else "even-digit-count"
        if op == "from_u32" and a[0] >= 2 ** 32:
            return ">u32::MAX"
        if op == "rshift" and a[1] >= 2 ** 31:
            return "count>=2^31"
        if op == "set_bit" and a[1] < 0:
            return "index<0"
        if op == "semiprime" and Z(a[3]) == 0:
            return "modulus=0"
    except Exception:
        pass
    return sign_pattern(a)


def in_domain(op, a):
    """is the operand tuple inside the domain of the C17 statement?
    (bit operations and shifts: non-negative values and indices; exp: exponent < 2^64 — above
    that only 0 and +-1 have representable powers and the pure-Rust back-end refuses)"""
    try:
        if op in ("rshift1", "rshift", "bitwise_or"):
            return all(Z(x) >= 0 for x in a if isinstance(x, str))
        if op == "is_bit_set":
            return Z(a[0]) >= 0 and a[1] >= 0
        if op == "set_bit":
            return Z(a[0]) >= 0
        if op == "exp":
            return Z(a[1]) < 2 ** 64
    except Exception:
        return True
    return True


# ------------------------------------------------------------------ independent evaluation with Python integers

def tdiv(a, b):
    q = abs(a) // abs(b)
    return q if (a < 0) == (b < 0) else -q


def py_numeral(s, digits, radix):
    body = s[1:] if s[:1] == "-" else s
    if not body or any(c not in digits for c in body):
        return ("err", None)
    v = int(body, radix)
    return ("ok", str(-v if s[:1] == "-" else v))


def py_inverse(a, n):
    m = abs(n)
    if m <= 1 or math.gcd(a, m) != 1:
        return None
    return pow(a % m, -1, m)


def py_spec(op, a):
    """(status, canonical val) by Python integer arithmetic, or None when not implemented"""
    ok = lambda v: ("ok", v)
    err = ("err", None)
    z = lambda i: int(a[i])
    if op == "from_dec":
        return py_numeral(a[0], DEC, 10)
    if op == "from_hex":
        return py_numeral(a[0], HEX, 16)
    if op == "from_bytes":
        return ok(str(int(a[0], 16) if a[0] else 0))
    if op == "to_dec":
        return ok(str(z(0)))
    if op == "to_hex":
        return ok(("-" if z(0) < 0 else "") + ("%X" % abs(z(0))))
    if op == "to_bytes":
        v = abs(z(0))
        return ok(v.to_bytes((v.bit_length() + 7) // 8, "big").hex())
    if op == "from_u32":
        return ok(str(a[0]))
    if op == "cmp":
        return ok((z(0) > z(1)) - (z(0) < z(1)))
    if op == "eq":
        return ok(z(0) == z(1))
    if op == "is_negative":
        return ok(z(0) < 0)
    if op == "add":
        return ok(str(z(0) + z(1)))
    if op == "sub":
        return ok(str(z(0) - z(1)))
    if op == "mul":
        return ok(str(z(0) * z(1)))
    if op == "sqr":
        return ok(str(z(0) * z(0)))
    if op == "div":
        return err if z(1) == 0 else ok(str(tdiv(z(0), z(1))))
    if op == "modulus":
        return err if z(1) == 0 else ok(str(z(0) % abs(z(1))))
    if op == "mod_mul":
        return err if z(2) == 0 else ok(str(z(0) * z(1) % abs(z(2))))
    if op == "mod_sub":
        return err if z(2) == 0 else ok(str((z(0) - z(1)) % abs(z(2))))
    if op == "inverse":
        r = py_inverse(z(0), z(1))
        return err if r is None else ok(str(r))
    if op == "mod_div":
        r = py_inverse(z(1), z(2))
        return err if r is None else ok(str(z(0) * r % abs(z(2))))
    if op == "exp":
        x, k = z(0), z(1)
        if k < 0:
            return err
        if k >= 2 ** 20:
            return ok(str(x ** (k % 2 + 2 if k else 0))) if x in (0, 1, -1) else None
        return ok(str(x ** k))
    if op == "mod_exp":
        x, e, n = z(0), z(1), z(2)
        if n == 0:
            return err
        if e >= 0:
            return ok(str(pow(x, e, abs(n))))
        r = py_inverse(x, n)
        return err if r is None else ok(str(pow(r, -e, abs(n))))
    if op == "gcd":
        return ok(str(math.gcd(z(0), z(1))))
    if op == "lshift1":
        return ok(str(z(0) * 2))
    if op == "rshift1":
        return ok(str(z(0) >> 1))
    if op == "rshift":
        return ok(str(z(0) >> a[1])) if a[1] < 2 ** 20 else ok(str(-1 if z(0) < 0 else 0))
    if op == "num_bits":
        return ok(abs(z(0)).bit_length())
    if op == "is_bit_set":
        if a[1] < 0:
            return err
        v = max(z(0), 0)
        return ok(bool((v >> a[1]) & 1)) if a[1] < 2 ** 20 else ok(False)
    if op == "set_bit":
        return err if a[1] < 0 else ok(str(max(z(0), 0) | (1 << a[1])))
    if op == "bitwise_or":
        return ok(str(max(z(0), 0) | max(z(1), 0)))
    if op == "add_word":
        return ok(str(z(0) + a[1]))
    if op == "sub_word":
        return ok(str(z(0) - a[1]))
    if op == "mul_word":
        return ok(str(z(0) * a[1]))
    if op == "div_word":
        return err if a[1] == 0 else ok(str(tdiv(z(0), a[1])))
    if op == "increment":
        return ok(str(z(0) + 1))
    if op == "decrement":
        return ok(str(z(0) - 1))
    if op == "set_negative":
        return ok(str(-abs(z(0)) if a[1] else abs(z(0))))
    if op == "semiprime":
        g, p, q, n = z(0), z(1), z(2), z(3)
        if g == 1:
            return ok(False)
        for e in (p, q):
            if n == 0:
                return err
            if e >= 0:
                x = pow(g, e, abs(n))
            else:
                r = py_inverse(g, n)
                if r is None:
                    return err
                x = pow(r, -e, abs(n))
            if x == 1:
                return ok(False)
        return ok(True)
    return None


def denotes(op, a, impl):
    if impl.get("status") != "ok":
        return False
    x = int(a[0])
    v = impl["val"]
    if op == "to_bytes":
        return int(v, 16) == abs(x) if v else x == 0
    r = py_numeral(v, DEC if op == "to_dec" else HEX, 10 if op == "to_dec" else 16)
    return r == ("ok", str(x))


# ------------------------------------------------------------------ per-case comparator

def cmp_bn_op(prop, case, model, mat, F, variant, final):
    impl = case["impl"]
    nontrivial = impl.get("status") == "ok"
    if not final:
        return nontrivial
    inp = case["in"]
    op, args, be = inp["op"], inp["args"], inp["backend"]
    stat("cases")
    if impl.get("status") == "harness":
        F.mismatch("harness", "harness could not run %s%s: %s" % (op, str(args)[:80], impl.get("msg")), case, variant)
        return False
    if model is None or "error" in model:
        F.mismatch("driver", "model driver failed on op=%s: %s" % (op, (model or {}).get("error")), case, variant)
        return False
    cl = klass(op, args)
    ash = str(args)
    ash = ash if len(ash) < 160 else ash[:150] + "..."
    # 1. the model of this back-end is what the code does
    if canon(impl) != canon(model):
        F.mismatch("bn_model:" + op, "backend=%s op=%s class=%s args=%s impl=%s model=%s" % (be, op, cl, ash, show(impl), show(model)), case, variant, model)
    if prop != "C17":
        return nontrivial
    # 2. the property: integer arithmetic
    spec = model.get("spec")
    dom = in_domain(op, args)
    if op in ("to_dec", "to_hex", "to_bytes"):
        # printing: C17 asks for a numeral / byte string that *denotes* the operand (read back by
        # the strict Spec grammar); the exact text (leading zero digit, zero as "" or "00") is a
        # matter of C18
        if canon(impl) != canon(spec):
            stat("noncanonical_print:%s:%s:%s" % (be, op, cl))
            if not denotes(op, args, impl):
                F.oracle_failure("bn_spec:" + op, "backend=%s op=%s class=%s args=%s impl=%s does not denote the operand" % (be, op, cl, ash, show(impl)), case, variant)
    elif canon(impl) != canon(spec):
        if dom:
            F.oracle_failure("bn_spec:" + op, "backend=%s op=%s class=%s args=%s impl=%s integer-arithmetic=%s" % (be, op, cl, ash, show(impl), show(spec)), case, variant)
        else:
            stat("outside_domain_differs:%s:%s" % (be, op))
    elif dom:
        stat("in_domain_agree")
    # 3. Lean's Spec against an independent engine
    py = py_spec(op, args)
    if py is None:
        stat("python_not_evaluated")
    elif py != canon(spec):
        F.mismatch("bn_spec_vs_python:" + op, "op=%s args=%s lean-spec=%s python=%s" % (op, ash, show(spec), py), case, variant, model)
    else:
        stat("python_agrees")
    return nontrivial


# ------------------------------------------------------------------ random generators / primality contracts

def cmp_bn_random(prop, case, model, mat, F, variant, final):
    impl = case["impl"]
    if not final:
        return True
    inp = case["in"]
    kind = inp["kind"]
    be = inp.get("backend")
    if model is None or "error" in model:
        F.mismatch("driver", "model driver failed on bn_random/%s: %s" % (kind, (model or {}).get("error")), case, variant)
        return False
    if prop != "C17":
        return True
    fail = lambda what, detail: F.oracle_failure("bn_contract:" + kind, "backend=%s kind=%s %s: %s" % (be, kind, what, detail), case, variant)
    mr = model.get("mr", [])
    stat("random_cases")
    if kind in ("is_prime", "is_safe_prime"):
        # verdict of the library against Miller-Rabin to 16 bases in the Lean driver (a test)
        for n, r, m in zip(inp["mr"], impl["verdicts"], mr):
            want = m["p"] and (m["h"] or kind == "is_prime")
            if kind == "is_safe_prime" and n in ("5",):
                want = m["p"]  # (5-1)/2 = 2 is prime; MR of 2 is true anyway
            if r["status"] != "ok":
                fail("class=%s n=%s" % (r["status"], n[:40]), "returned %s" % r["status"])
            elif r["val"] != want:
                fail("class=%s n=%s" % (num_class(n, kind), n[:60]), "library says %s, Miller-Rabin(16 bases) says %s" % (r["val"], want))
        return True
    if kind in ("rand", "rand_range"):
        st = impl["status"]
        if inp.get("expect") == "err":
            if st != "err":
                fail("class=empty-range bound=%s" % inp.get("bound", "")[:40], "expected an error for an empty range, got %s" % st)
            return False
        if st != "ok":
            fail("class=status size=%s" % inp.get("size", inp.get("bound", ""))[:40] if isinstance(inp.get("size", ""), str) else "class=status size=%s" % inp.get("size"), "returned %s (%s)" % (st, impl.get("msg", "")[:60]))
            return False
        hi = 2 ** inp["size"] if kind == "rand" else int(inp["bound"])
        vals = [int(v) for v in impl["values"]]
        bad = [v for v in vals if not (0 <= v < hi)]
        if bad:
            fail("class=out-of-range", "value %d outside [0, %s)" % (bad[0], str(hi)[:40]))
        n = len(vals)
        if hi >= 2 and n >= 64 and not any(v >= hi // 2 for v in vals):
            fail("class=top-half-never-reached", "%d draws, none >= bound/2" % n)
        if hi >= 2 and n >= 64 and not any(v < hi // 2 for v in vals):
            fail("class=bottom-half-never-reached", "%d draws, none < bound/2" % n)
        if hi <= 8 and n >= 64 * hi and len(set(vals)) != hi:
            fail("class=value-never-drawn", "%d draws over %d values: only %s seen" % (n, hi, sorted(set(vals))))
        if hi >= 2 ** 32 and len(set(vals)) < n:
            fail("class=repeated-value", "repeated values among %d draws below 2^%d" % (n, hi.bit_length() - 1))
        return True
    if kind in ("generate_prime", "generate_safe_prime", "prime_in_range", "random_qr"):
        st = impl["status"]
        if st != "ok":
            if inp.get("expect") == "err" and st == "err":
                return False
            if st == "err" and be == "rust" and kind in ("generate_prime", "generate_safe_prime") and inp["args"]["size"] < 128:
                # glass_pumpkin refuses bit lengths below 128 (documented minimum of the dependency);
                # an error, not a wrong value: recorded, not a failure
                stat("refused_small_size:%s:%d" % (kind, inp["args"]["size"]))
                return False
            extra = " range%%8=%d mode=%s" % (inp["args"]["range"] % 8, inp["args"]["mode"]) if kind == "prime_in_range" else ""
            fail("class=status:%s%s args=%s" % (st, extra, inp.get("args")), "returned %s (%s)" % (st, impl.get("msg", "")[:80]))
            return False
        vals = [int(v) for v in impl["values"]]
        args = inp.get("args", {})
        if kind == "random_qr":
            p, q = int(args["p"]), int(args["q"])
            n = p * q
            for v in vals:
                if not (0 < v < n) or math.gcd(v, n) != 1:
                    fail("class=not-a-unit", "%d not an invertible residue" % v)
                elif pow(v, (p - 1) // 2, p) != 1 or pow(v, (q - 1) // 2, q) != 1:
                    fail("class=not-a-square", "%d is not a quadratic residue mod p and q (Euler criterion)" % v)
            if len(vals) >= 16 and len(set(vals)) == 1:
                fail("class=constant", "all draws equal")
            return True
        for v, m in zip(vals, mr):
            if not m["p"]:
                fail("class=composite args=%s" % args, "%d is composite by Miller-Rabin(16 bases)" % v)
            if kind == "generate_safe_prime" and not m["h"]:
                fail("class=not-safe args=%s" % args, "(p-1)/2 is composite for p=%d" % v)
        if kind == "generate_prime":
            for v in vals:
                if v.bit_length() != args["size"]:
                    fail("class=bit-length size=%d" % args["size"], "prime has %d bits" % v.bit_length())
        if kind == "generate_safe_prime":
            stat("safe_prime_bits:%s:%d->%s" % (be, args["size"], sorted({v.bit_length() for v in vals})))
        if kind == "prime_in_range":
            size, rng_ = args["size"], args["range"]
            lo, hi = 2 ** size, 2 ** size + 2 ** rng_
            for v, fx in zip(vals, model.get("cand", [])):
                if not (lo <= v < hi) or v % 2 == 0:
                    fail("class=out-of-range range%%8=%d mode=%s" % (rng_ % 8, args["mode"]), "size=%d range=%d: %d outside [2^size, 2^size+2^range) or even" % (size, rng_, v))
                if not fx:
                    F.mismatch("bn_model:prime_candidate", "backend=%s size=%d range=%d mode=%s: %d is not a fixed point of the model's buffer construction" % (be, size, rng_, args["mode"], v), case, variant, model)
            if len(vals) >= 24 and rng_ >= 3 and not any((v - lo) >> (rng_ - 1) for v in vals):
                fail("class=top-bit-never-set", "size=%d range=%d: bit range-1 never set in %d draws" % (size, rng_, len(vals)))
        return True
    F.mismatch("bn_random", "unknown kind %s" % kind, case, variant)
    return False


def num_class(n, kind):
    from_lists = {
        "carmichael": {"561", "1105", "1729", "2465", "2821", "6601", "8911", "41041", "825265", "321197185", "5394826801", "232250619601", "9746347772161",
                       "35700127755121", "37686301288201", "57060521336809", "3825123056546413051",
                       "386007699134627392741960852648423145645909879484785758609720275807602184721",
                       "188920918756007600944123125562313043451461075597777194735767964389956961"},
        "strong-pseudoprime": {"2047", "1373653", "25326001", "3215031751", "2152302898747", "3474749660383", "341550071728321", "3825123056546413051", "318665857834031151167461", "3317044064679887385961981"},
    }
    for k, s in from_lists.items():
        if n in s:
            return k
    v = int(n)
    if v < 0:
        return "negative"
    if v < 8:
        return "n=%d" % v
    return "%d-bit" % v.bit_length()


# ------------------------------------------------------------------ C18: the two builds side by side

def post_compare(prop, runs, F):
    """runs: {variant: {stream: [cases]}} — compare the two implementations' results directly"""
    if prop != "C18":
        return {"stats": dict(STATS)}
    res = {"compared": 0, "equal": 0, "differ_in_domain": 0, "differ_outside_domain": 0, "by_op": {}}
    a, b = runs.get("ossl-rel", {}).get("bn"), runs.get("rust-rel", {}).get("bn")
    if a is None or b is None:
        F.mismatch("bn_two_builds", "C18 needs the stream bn from both builds (ossl-rel, rust-rel); got %s" % sorted(runs), {"id": "post_compare"}, "both")
        return res
    if len(a) != len(b):
        F.mismatch("bn_generator", "the two builds produced %d and %d cases for the same seed" % (len(a), len(b)), {"id": "post_compare"}, "both")
    for ca, cb in zip(a, b):
        ia, ib = ca["in"], cb["in"]
        if ia["op"] != ib["op"] or ia["args"] != ib["args"] or ca["id"] != cb["id"]:
            F.mismatch("bn_generator", "case %s differs between the builds: the generator depends on the back-end" % ca["id"], ca, "both")
            break
        op, args = ia["op"], ia["args"]
        res["compared"] += 1
        if canon(ca["impl"]) == canon(cb["impl"]):
            res["equal"] += 1
            continue
        cl = klass(op, args)
        ash = str(args)
        ash = ash if len(ash) < 160 else ash[:150] + "..."
        if in_domain(op, args):
            res["differ_in_domain"] += 1
            res["by_op"][op] = res["by_op"].get(op, 0) + 1
            merged = dict(ca)
            merged["impl_rust"] = cb["impl"]
            F.oracle_failure("bn_backends_differ:" + op, "op=%s class=%s args=%s openssl=%s rust=%s" % (op, cl, ash, show(ca["impl"]), show(cb["impl"])), merged, "ossl-rel|rust-rel")
        else:
            res["differ_outside_domain"] += 1
            res["by_op"]["(outside) " + op] = res["by_op"].get("(outside) " + op, 0) + 1
    x = post_exchange(prop, runs, F)
    if x:
        res["exchange"] = x
    return res


def post_exchange(prop, runs, F):
    """artefact exchange: each build reports what it could do with the other build's artefacts"""
    out = {}
    for variant, streams in runs.items():
        for c in streams.get("bn_xchg_make", []) + streams.get("bn_xchg", []):
            for r in c["impl"].get("results", []):
                out[r["what"]] = out.get(r["what"], 0) + 1
                if not r["ok"]:
                    F.oracle_failure("bn_exchange:" + r["what"], "producer=%s consumer=%s artefact=%s: %s" % (r.get("producer"), c["in"].get("backend"), r.get("artefact"), r.get("detail", "")[:200]), {"id": c["id"], "in": c["in"], "result": r}, variant)
    return out


def cmp_bn_xchg(prop, case, model, mat, F, variant, final):
    return bool(case["impl"].get("results"))


COMPARATORS = {"bn_op": cmp_bn_op, "bn_random": cmp_bn_random, "bn_xchg": cmp_bn_xchg}
