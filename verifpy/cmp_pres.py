"""Comparators for presentations: verify (C01, C02, C03, C07, C10, C11), pred (C01, C03)."""
import hashlib

ORACLES = {
    "C10": {"valid_holder_accepted", "nonrevoc_enforced", "honest_proof_verifies"},
    "C07": {"valid_holder_accepted", "honest_proof_verifies"},
    "C01": {"honest_proof_verifies", "revealed_values_equal", "prover_builds_true", "prover_no_panic", "other_nonce_rejected", "valid_holder_accepted"},
    "C02": {"altered_proof_rejected", "honest_proof_verifies", "forgery_rejected", "unanswered_request_rejected"},
    "C03": {"prover_builds_true", "prover_refuses_false", "prover_no_panic", "honest_proof_verifies",
            "altered_proof_rejected", "cheating_predicate_rejected"},
    "C11": {"honest_proof_verifies", "common_attribute_enforced", "altered_proof_rejected"},
    "C20": {"prover_no_panic", "verify_no_panic"},
}

# which alteration classes belong to which property's observable
C03_ALTS = ("ne", "eq.m[", "eq.m swap", "eq.m remove")


def report_oracles(prop, case, F, variant):
    for o in case["impl"].get("oracles", []):
        if o["name"] in ORACLES.get(prop, ()):
            if prop == "C03" and o["name"] == "altered_proof_rejected" and not any(a in o["detail"] for a in C03_ALTS):
                continue
            F.oracle_failure(o["name"], o["detail"], case, variant)


def verdict(x):
    if x is None:
        return None
    if x.get("status") == "ok":
        return "accept" if x.get("valid") else "reject"
    return x.get("status")


def finish_transcript(model, mat, impl):
    """model returned a transcript with pairing-side items: materialise and hash (python hashlib)"""
    parts = []
    pending = False
    for it in model["transcript"]:
        if "bytes" in it:
            parts.append(bytes.fromhex(it["bytes"]))
        else:
            kind, exp = next(iter(it.items()))
            b = mat.group(kind, exp)
            if b is None:
                pending = True
                continue
            if b == "materialise-error":
                return {"status": "err"}
            parts.append(bytes.fromhex(b))
    if pending:
        return None
    h = int.from_bytes(hashlib.sha256(b"".join(parts)).digest(), "big")
    return {"status": "ok", "valid": str(h) == model["c_hash"]}


def cmp_verify(prop, case, model, mat, F, variant, final):
    impl = case["impl"]
    if final:
        report_oracles(prop, case, F, variant)
    if model is None or "error" in model:
        if final:
            F.mismatch("driver", "model driver failed on %s: %s" % (case["id"], (model or {}).get("error")), case, variant)
        return False
    # the model's exponents of c-list / accumulator / registry key against the wire values
    for chk in model.get("nr_checks", []) or []:
        items = chk if isinstance(chk, list) else [chk]
        for it in items:
            if "error" in it:
                if final:
                    F.mismatch("nr_ctx", "%s: model could not read the non-revocation context: %s" % (case["id"], it["error"]), case, variant)
                continue
            if it.get("expect") in (None, ""):
                continue
            got = mat.group(it["group"], it["exp"])
            if final and got != it["expect"] and case.get("class", {}).get("kind") not in ("transplanted_non_revocation_part",):
                F.mismatch("nr_element", "%s: %s: model exponent materialises to %s..., implementation has %s..." %
                           (case["id"], it["what"], str(got)[:16], str(it["expect"])[:16]), case, variant)
    if "transcript" in model:
        model = finish_transcript(model, mat, impl)
        if model is None:
            return False
    if not final:
        return False
    vi, vm = verdict(impl), verdict(model)
    # err (ProofRejected / InvalidState) and a `false` verdict are both "not accepted"; the
    # distinction is compared too, since the model mirrors the code, but under its own label
    if (vi == "accept") != (vm == "accept"):
        F.mismatch("verdict", "%s: implementation %s, model %s (%s)" % (case["id"], vi, vm, case.get("class")), case, variant, model)
    elif vi != vm:
        if vi == "panic" or vm == "panic":
            F.mismatch("verdict_panic", "%s: implementation %s, model %s (%s)" % (case["id"], vi, vm, case.get("class")), case, variant, model)
        else:
            F.mismatch("verdict_kind", "%s: implementation %s, model %s (%s) — both reject, in different ways" % (case["id"], vi, vm, case.get("class")), case, variant, model)
    return vi == "accept" or case.get("class", {}).get("alteration") not in (None, "none")


def cmp_pres_refused(prop, case, model, mat, F, variant, final):
    if final:
        report_oracles(prop, case, F, variant)
    return False


def cmp_pred(prop, case, model, mat, F, variant, final):
    if not final:
        return True
    impl = case["impl"]
    report_oracles(prop, case, F, variant)
    if model is None or "error" in model:
        F.mismatch("driver", "model driver failed: %s" % (model or {}).get("error"), case, variant)
        return False
    i = case["in"]
    if model["decision"] != impl["decision"]:
        F.mismatch("pred_decision", "value %s %s %s: prover %s, model %s" % (i["value"], i["p_type"], i["threshold"], impl["decision"], model["decision"]), case, variant, model)
    # model-level statement of the property (the search space when an obligation about
    # Gen.Predicate broke): decision = build  <=>  predicate holds; delta' relation
    if model["decision"] in ("build", "refuse") and (model["decision"] == "build") != impl["holds"]:
        F.oracle_failure("model_builds_iff_true", "model: value %s %s %s is %s but the decision is %s" %
                         (i["value"], i["p_type"], i["threshold"], impl["holds"], model["decision"]), case, variant)
    if model["decision"] == "panic":
        F.oracle_failure("model_no_panic", "model: value %s %s %s panics" % (i["value"], i["p_type"], i["threshold"]), case, variant)
    if model["delta"] not in ("err", "panic") and model["delta_prime"] not in ("err", "panic"):
        d, dp, v = int(model["delta"]), int(model["delta_prime"]), int(i["value"])
        want = (v - dp) if i["p_type"] in ("GE", "GT") else (dp - v)
        if d != want:
            F.oracle_failure("model_delta_prime_rel", "model: value %s %s %s: delta %d is not +-(value - delta') with delta' %d" %
                             (i["value"], i["p_type"], i["threshold"], d, dp), case, variant)
    return True


COMPARATORS = {"verify": cmp_verify, "pres_refused": cmp_pres_refused, "pred": cmp_pred}


def cmp_prove(prop, case, model, mat, F, variant, final):
    """reference prover: the model builds the proof, the real verifier judges"""
    if model is None or "error" in model:
        if final:
            F.mismatch("driver", "model driver failed on %s: %s" % (case["id"], (model or {}).get("error")), case, variant)
        return False
    if model.get("status") != "ok":
        if final:
            F.mismatch("model_prove", "%s: model prover failed: %s" % (case["id"], model), case, variant, model)
        return False
    ex = case["impl"]["exec"]
    inp = dict(ex["in"])
    inp["proof"] = model["proof"]
    r = mat.call(ex["op"], inp)
    if not final:
        return True
    if case["impl"].get("expect_accept") is False:
        # a cheating holder running the model prover: the proof must NOT be accepted
        if verdict(r or {}) == "accept":
            F.oracle_failure(case["impl"].get("oracle", "forgery_rejected"), "%s: %s - ACCEPTED by the real verifier" %
                             (case["id"], case["impl"].get("what", "a proof the model prover computed for a cheating holder")), case, variant)
        return True
    if verdict(r or {}) != "accept":
        F.oracle_failure("reference_prover_accepted", "the real verifier does not accept a proof computed by the model prover (%s): %s" %
                         (case.get("class"), {k: v for k, v in (r or {}).items() if k != "oracles"}), case, variant)
    return True


COMPARATORS["prove"] = cmp_prove
COMPARATORS["prove_multi"] = cmp_prove
ORACLES.setdefault("C07", set()).update({"reference_prover_accepted"})


def cmp_prove_nr(prop, case, model, mat, F, variant, final):
    """reference prover for a presentation WITH a non-revocation part, two phases: the model returns the transcript
    (pairing-side values as exponents), they are materialised by the pairing library and hashed here, the model
    finishes the proof for that challenge (and re-computes the hash itself), the real verifier judges"""
    from . import core
    if model is None or "error" in model:
        if final:
            F.mismatch("driver", "model driver failed on %s: %s" % (case["id"], (model or {}).get("error")), case, variant)
        return False
    if model.get("status") != "ok" or "transcript" not in model:
        if final:
            F.mismatch("model_prove", "%s: model prover failed: %s" % (case["id"], model), case, variant, model)
        return False
    tr = model["transcript"]
    parts, nrb, text, pending = [], [], {}, False
    for it in tr:
        if "bytes" in it:
            parts.append(bytes.fromhex(it["bytes"]))
            continue
        kind, exp = next(iter(it.items()))
        b = mat.group(kind, exp)
        if kind in ("g1", "g2"):
            t = mat.call("genpow_text", {"group": kind, "exp": exp})
            if t is not None:
                text[(kind, exp)] = t
        if b is None:
            pending = True
            continue
        if b == "materialise-error":
            F.mismatch("materialise", "%s: %s^%s could not be materialised" % (case["id"], kind, exp), case, variant)
            return False
        parts.append(bytes.fromhex(b))
        nrb.append(b)
    if pending or not final:
        return True
    c = int.from_bytes(hashlib.sha256(b"".join(parts)).digest(), "big")
    c2 = {"id": case["id"], "op": "prove_nr", "in": dict(case["in"])}
    c2["in"].update({"c_hash": str(c), "nr_tau_bytes": nrb[:8], "nr_c_bytes": nrb[8:]})
    m2 = core.model_run([c2], workers=1).get(case["id"])
    if m2 is None or "error" in m2 or m2.get("status") != "ok":
        F.mismatch("model_prove", "%s: model prover (second phase) failed: %s" % (case["id"], str(m2)[:300]), case, variant, m2)
        return False
    proof = m2["proof"]
    cl = proof["proofs"][0]["non_revoc_proof"]["c_list"]
    for f in list(cl):
        kind, exp = next(iter(cl[f].items()))
        t = text.get((kind, exp))
        if not isinstance(t, str):
            F.mismatch("materialise", "%s: no text form for c_list.%s: %s" % (case["id"], f, t), case, variant)
            return False
        cl[f] = t
    ex = case["impl"]["exec"]
    inp = dict(ex["in"])
    inp["proof"] = proof
    res = core.harness_exec(variant, [{"id": "v", "op": ex["op"], "in": inp}])
    r = (res.get("v") or {}).get("out") or {"status": "exec-error", "msg": str(res)[:200]}
    if verdict(r) != "accept":
        F.oracle_failure("reference_prover_accepted", "the real verifier does not accept a presentation WITH a non-revocation part computed by the model prover (%s): %s" %
                         (case.get("class"), {k: v for k, v in r.items() if k != "oracles"}), case, variant)
    return True


COMPARATORS["prove_nr"] = cmp_prove_nr
