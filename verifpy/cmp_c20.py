"""Comparators for C20 (counterparty-controlled input never panics).

`c20_doc`: one mutated document (or one call with wild index arguments); `impl.calls` lists every
library call made for it with its outcome.  Any panic / hang / abort is a failure of the
property on the implementation, whatever a model says:
    F.oracle_failure("no_panic:<entry>", "<entry> [<args>]: <mutation>: <message>")
    F.oracle_failure("hang:<entry>", ...)      F.oracle_failure("no_abort:<entry>", ...)
`witness_new` / `witness_update`: the model's outcome class and witness value for a mutated
delta, compared with the real `Witness::new` / `Witness::update` (exponent materialised as g'^a).
Shared ops (`verify`, `merge`) are compared by cmp_pres / cmp_reg.
"""

ORACLE_PREFIX = {"panic": "no_panic", "hang": "hang", "abort": "no_abort"}


def entry_name(e):
    # "decode:<Type>:<encoding>" keeps its type; the rest is the API function
    return e


def cmp_c20_doc(prop, case, model, mat, F, variant, final):
    impl = case["impl"]
    calls = impl.get("calls", [])
    if not final:
        return any(not c["entry"].startswith("decode:") for c in calls)
    profile = "checked" if case["in"].get("mode") == "checked" else "release"
    for c in calls:
        st = c.get("status")
        if st in ORACLE_PREFIX:
            args = c.get("args")
            detail = "%s%s: %s: %s [profile=%s backend=%s shape=%s case=%s]" % (
                c["entry"], " [%s]" % args if args else "", case["in"].get("mutation", ""), c.get("msg", ""),
                profile, case["in"].get("backend"), case["in"].get("shape"), case["id"])
            F.oracle_failure("%s:%s" % (ORACLE_PREFIX[st], c["entry"]), detail, case, variant)
        elif st not in ("ok", "err"):
            F.mismatch("c20_status", "unknown call status %r in %s" % (st, case["id"]), case, variant)
    # non-trivial: the document decoded (or the call took no document) and reached an entry point
    return any(not c["entry"].startswith("decode:") for c in calls)


def _driver_failed(model, F, case, variant, final):
    if model is None or "error" in model:
        if final:
            F.mismatch("driver", "model driver failed on %s: %s" % (case["id"], (model or {}).get("error")), case, variant)
        return True
    return False


def cmp_witness(prop, case, model, mat, F, variant, final):
    impl = case["impl"]
    if _driver_failed(model, F, case, variant, final):
        return False
    what = case["op"]
    g = None
    if model["status"] == "ok":
        g = mat.g2(impl["g_dash"], model["omega"])
    if not final:
        return False
    i = case["in"]
    where = "%s i=%s L=%s by_default=%s delta issued=%s revoked=%s" % (
        what, i.get("i"), i.get("L"), i.get("by_default"), i["delta"].get("issued"), i["delta"].get("revoked"))
    if model["status"] == "panic":
        # model-level statement of the property (what Props/C20.lean proves for TailsOk L)
        F.oracle_failure("model_no_panic:" + what, "model panics: " + where, case, variant)
    if model["status"] != impl["status"]:
        F.mismatch(what + "_status", "%s: implementation %s, model %s" % (where, impl["status"], model["status"]), case, variant, model)
        return False
    if impl["status"] == "ok":
        if g != impl["omega"]:
            F.mismatch(what + "_value", "%s: witness differs (model exponent %s)" % (where, str(model.get("omega"))[:16]), case, variant, model)
        return True
    return False


COMPARATORS = {
    "c20_doc": cmp_c20_doc,
    "witness_new": cmp_witness,
    "witness_update": cmp_witness,
}
