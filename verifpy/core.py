"""Orchestration shared by all property checks: translate, build, audit, run streams, decide.

Nothing here is a proof or an oracle by itself; it runs
  * tools/translate.py          (Gen/*.lean from /repo's working tree)
  * lake build                  (Lean kernel checks every theorem of the property module)
  * the axiom audit             (#print axioms on every property theorem)
  * harness/clh                 (the real library, in-process) and lean `cldrv` (the model)
and compares / classifies what they report.
"""
import fcntl, hashlib, json, os, re, subprocess, sys, time

VERIF = os.path.dirname(os.path.dirname(os.path.abspath(__file__)))
REPO = os.environ.get("VERIF_REPO", "/repo")
LEAN = os.path.join(VERIF, "lean")
HARNESS = os.path.join(VERIF, "harness")
WORK = os.path.join(VERIF, "work")
ALLOWED_AXIOMS = {"propext", "Classical.choice", "Quot.sound"}
FORBIDDEN = re.compile(r"\bsorry\b|\badmit\b|^\s*axiom\s|native_decide|bv_decide|implemented_by|\bunsafe\s|maxHeartbeats\s+0")

VARIANTS = {
    # name: (cargo features, profile, backend dir)
    "ossl-rel": (["--features", "ossl"], "release", "ossl"),
    "ossl-chk": (["--features", "ossl"], "checked", "ossl"),
    "rust-rel": ([], "release", "rust"),
    "rust-chk": ([], "checked", "rust"),
}

TRUSTED_BASE = [
    "Lean 4.33.0 kernel (leanchecker re-check in the thorough tier)",
    "axioms propext, Classical.choice, Quot.sound only (audited with #print axioms on every property theorem); no native_decide, no bv_decide, no sorry, no own axioms",
    "Mathlib v4.33.0 for the imported lemmas",
    "tools/translate.py: the Gen/*.lean definitions are what the Rust source says (regenerated on every run)",
    "correspondence check (harness/clh against lean/cldrv) for everything modelled by hand",
    "pairing side is modelled in exponent form (transfer principle: C19 pairing_equation_in_exponents; that amcl's groups meet its hypotheses is observed); group elements are compared after materialisation g'^a with the amcl crate (a dependency, not code under test)",
    "RSA side: theorems are proved over any additive commutative group and transferred to the driver's group Int mod N by the proved refinement Zn.znOps_refines (C01 zn_refines_units ... presentation_complete_executable; C04, C05 *_executable / *_refines); proveMulti lifted for credentials over one modulus only",
    "amcl, OpenSSL, num-bigint, glass_pumpkin, serde, serde_json, rmp-serde, sha2 are dependencies whose behaviour is observed, not verified",
]


def log(*a):
    print("[check]", *a, file=sys.stderr, flush=True)


class Lock:
    def __init__(self, name):
        os.makedirs(WORK, exist_ok=True)
        self.path = os.path.join(WORK, name + ".lock")

    def __enter__(self):
        self.fh = open(self.path, "w")
        fcntl.flock(self.fh, fcntl.LOCK_EX)
        return self

    def __exit__(self, *a):
        fcntl.flock(self.fh, fcntl.LOCK_UN)
        self.fh.close()


def run(cmd, cwd=None, env=None, inp=None, timeout=None):
    e = dict(os.environ)
    e.update({"CARGO_NET_OFFLINE": "true"})
    if env:
        e.update(env)
    p = subprocess.run(cmd, cwd=cwd, env=e, input=inp, capture_output=True, text=True, timeout=timeout)
    return p.returncode, p.stdout, p.stderr


# ------------------------------------------------------------------ translate / build / audit

def translate():
    rc, out, err = run([sys.executable, os.path.join(VERIF, "tools", "translate.py"), "--repo", REPO])
    if rc != 0:
        return {"error": err[-2000:]}
    try:
        return json.loads(out)
    except Exception:
        return {"error": out[-500:] + err[-500:]}


def props_file(prop):
    return os.path.join(LEAN, "CLModel", "Props", prop + ".lean")


def theorem_names(prop):
    """full names of the property theorems declared in Props/<prop>.lean"""
    names, ns = [], []
    src = open(props_file(prop)).read()
    src = re.sub(r"/-.*?-/", lambda m: "\n" * m.group(0).count("\n"), src, flags=re.S)
    for line in src.split("\n"):
        m = re.match(r"\s*namespace\s+(\S+)", line)
        if m:
            ns.append(m.group(1))
        m = re.match(r"\s*end\s+(\S+)", line)
        if m and ns and ns[-1] == m.group(1):
            ns.pop()
        m = re.match(r"\s*(?:@\[[^\]]*\]\s*)?theorem\s+([A-Za-z_][\w'.]*)", line)
        if m:
            names.append(".".join(ns + [m.group(1)]))
    return names


def lean_build(prop):
    """build the property module and the driver; returns dict(ok, errors, failing_theorems, log)"""
    with Lock("lake"):
        t0 = time.time()
        rc, out, err = run(["lake", "build", "CLModel.Props." + prop, "cldrv"], cwd=LEAN, timeout=3600)
        txt = out + err
        res = {"ok": rc == 0, "wall_s": round(time.time() - t0, 1), "log_tail": txt[-3000:] if rc else ""}
        if rc != 0:
            # map error positions to the enclosing theorem / definition
            failing = []
            for m in re.finditer(r"error: ([^\s:]+\.lean):(\d+):(\d+):\s*(.*)", txt):
                path, line = m.group(1), int(m.group(2))
                full = path if os.path.isabs(path) else os.path.join(LEAN, path)
                decl = enclosing_decl(full, line)
                failing.append({"file": os.path.relpath(full, LEAN), "line": line, "decl": decl, "msg": m.group(4)[:300]})
            res["errors"] = failing
        return res


def enclosing_decl(path, line):
    try:
        lines = open(path).read().split("\n")
    except Exception:
        return None
    ns = []
    decl = None
    for i, l in enumerate(lines[:line], 1):
        m = re.match(r"\s*namespace\s+(\S+)", l)
        if m:
            ns.append(m.group(1))
        m = re.match(r"\s*end\s+(\S+)", l)
        if m and ns and ns[-1] == m.group(1):
            ns.pop()
        m = re.match(r"\s*(?:@\[[^\]]*\]\s*)?(?:private\s+|protected\s+)?(theorem|lemma|def|example|instance|abbrev)\s+([A-Za-z_][\w'.]*)?", l)
        if m:
            decl = ".".join(ns + [m.group(2) or "example@%d" % i])
    return decl


def audit(prop, names):
    """#print axioms on every property theorem; returns {name: [axioms] | None}"""
    os.makedirs(WORK, exist_ok=True)
    path = os.path.join(WORK, "audit_%s.lean" % prop)
    with open(path, "w") as fh:
        fh.write("import CLModel.Props.%s\n" % prop)
        for n in names:
            fh.write("#print axioms %s\n" % n)
    with Lock("lake"):
        rc, out, err = run(["lake", "env", "lean", path], cwd=LEAN, timeout=1800)
    txt = out + err
    res = {}
    for n in names:
        m = re.search(r"'" + re.escape(n) + r"' depends on axioms: \[([^\]]*)\]", txt)
        if m:
            res[n] = [a.strip() for a in m.group(1).replace("\n", " ").split(",") if a.strip()]
        elif re.search(r"'" + re.escape(n) + r"' does not depend on any axioms", txt):
            res[n] = []
        else:
            res[n] = None
    return res, txt[-1500:] if rc else ""


def grep_forbidden():
    hits = []
    for root, _, files in os.walk(os.path.join(LEAN, "CLModel")):
        for f in files:
            if not f.endswith(".lean"):
                continue
            p = os.path.join(root, f)
            src = open(p).read()
            # drop comments
            src = re.sub(r"/-.*?-/", lambda m: "\n" * m.group(0).count("\n"), src, flags=re.S)
            for i, line in enumerate(src.split("\n"), 1):
                line = line.split("--")[0]
                if FORBIDDEN.search(line):
                    hits.append("%s:%d: %s" % (os.path.relpath(p, LEAN), i, line.strip()[:120]))
    return hits


def leanchecker(prop):
    with Lock("lake"):
        rc, out, err = run(["lake", "env", "leanchecker", "CLModel.Props." + prop], cwd=LEAN, timeout=3600)
    return rc == 0, (out + err)[-800:]


# ------------------------------------------------------------------ harness

def harness_bin(variant):
    feats, profile, bdir = VARIANTS[variant]
    return os.path.join(HARNESS, "target", bdir, profile, "clh")


def harness_build(variant):
    feats, profile, bdir = VARIANTS[variant]
    with Lock("cargo-" + bdir):
        t0 = time.time()
        cmd = ["cargo", "build", "--offline", "--profile", profile] + feats + ["--target-dir", os.path.join("target", bdir)]
        rc, out, err = run(cmd, cwd=HARNESS, timeout=3600)
        return {"ok": rc == 0, "wall_s": round(time.time() - t0, 1), "log_tail": (out + err)[-3000:] if rc else ""}


def harness_gen(variant, stream, tier, seed, extra=None):
    """returns (cases, error)"""
    cmd = [harness_bin(variant), "gen", stream, "--tier", tier, "--seed", str(seed)] + (extra or [])
    limit = 1500 if tier == "quick" else 6 * 3600
    try:
        rc, out, err = run(cmd, cwd=HARNESS, timeout=limit)
    except subprocess.TimeoutExpired as ex:
        out = ex.stdout.decode() if isinstance(ex.stdout, bytes) else (ex.stdout or "")
        rc, err = 124, "harness stream %s/%s did not finish within %d s" % (stream, variant, limit)
    cases = []
    for line in out.split("\n"):
        if line.strip():
            try:
                cases.append(json.loads(line))
            except Exception:
                return cases, "unparsable harness line: " + line[:200]
    if rc != 0:
        msg = err[-1500:]
        for c in cases:
            if c.get("op") == "harness_error":
                msg = c.get("error", "") + "\n" + msg
        return [c for c in cases if c.get("op") != "harness_error"], "harness exit %d: %s" % (rc, msg)
    return cases, None


def harness_exec(variant, ops):
    if not ops:
        return {}
    inp = "\n".join(json.dumps(o) for o in ops) + "\n"
    rc, out, err = run([harness_bin(variant), "exec"], cwd=HARNESS, inp=inp, timeout=7200)
    res = {}
    for line in out.split("\n"):
        if line.strip():
            j = json.loads(line)
            res[j.get("id")] = j
    return res


def _model_chunk(lines):
    exe = os.path.join(LEAN, ".lake", "build", "bin", "cldrv")
    rc, out, err = run([exe], inp="\n".join(lines) + "\n", timeout=7200)
    res = {}
    for line in out.split("\n"):
        if line.strip():
            j = json.loads(line)
            res[j.get("id")] = j["out"] if "out" in j else {"error": j.get("error", "?")}
    if rc != 0:
        res["__driver_error__"] = {"error": "cldrv exit %d: %s" % (rc, err[-500:])}
    return res


def model_run(cases, workers=12):
    """pipe case lines (id, op, in) to cldrv (several processes); returns {id: out | {'error':..}}"""
    if not cases:
        return {}
    lines = [json.dumps({"id": c["id"], "op": c["op"], "in": c["in"]}) for c in cases]
    # heavy lines first, round-robin over the workers
    order = sorted(range(len(lines)), key=lambda i: -len(lines[i]))
    n = max(1, min(workers, len(lines) // 4 or 1))
    chunks = [[] for _ in range(n)]
    for k, i in enumerate(order):
        chunks[k % n].append(lines[i])
    res = {}
    from concurrent.futures import ThreadPoolExecutor
    with ThreadPoolExecutor(max_workers=n) as ex:
        for r in ex.map(_model_chunk, chunks):
            res.update(r)
    return res


class Materialiser:
    """g'^a for model exponents: collected in pass 1, resolved by `clh exec` for pass 2"""
    def __init__(self):
        self.req = {}
        self.res = None

    def key(self, kind, base, exp):
        return "%s:%s:%s" % (kind, hashlib.sha1(base.encode()).hexdigest()[:12], exp)

    def g2(self, base, exp):
        if exp in ("err", "panic", None):
            return exp
        k = self.key("g2mul", base, exp)
        if self.res is None:
            self.req[k] = {"id": k, "op": "g2mul", "in": {"base": base, "exp": exp}}
            return None
        r = self.res.get(k)
        if r is None or "out" not in r:
            return "materialise-error"
        return r["out"]

    def group(self, kind, exp):
        """generator^exp in G1 / G2 / GT (exp hex) -> canonical bytes hex"""
        k = "gen:%s:%s" % (kind, exp)
        if self.res is None:
            self.req[k] = {"id": k, "op": "genpow", "in": {"group": kind, "exp": exp}}
            return None
        r = self.res.get(k)
        if r is None or "out" not in r:
            return "materialise-error"
        return r["out"]

    def call(self, op, inp):
        """generic exec-stage call on the real code: returns the `out` value (pass 2)"""
        k = "call:%s:%s" % (op, hashlib.sha1(json.dumps(inp, sort_keys=True).encode()).hexdigest())
        if self.res is None:
            self.req[k] = {"id": k, "op": op, "in": inp}
            return None
        r = self.res.get(k)
        if r is None:
            return {"error": "no result"}
        return r.get("out", {"error": r.get("error")})

    def resolve(self, variant):
        self.res = harness_exec(variant, list(self.req.values()))


# ------------------------------------------------------------------ findings

class Findings:
    def __init__(self, prop):
        self.prop = prop
        import glob
        self.entries = []
        for path in sorted(glob.glob(os.path.join(VERIF, "known_findings*.json"))):
            self.entries += [e for e in json.load(open(path)) if e.get("property") == prop]
        self.known_hit = {}
        self.violations = []      # dicts: kind, name, detail, case
        self.mismatches = []

    def match_known(self, name, detail):
        for e in self.entries:
            if e.get("status") != "known":
                continue
            m = e.get("match", {})
            if m.get("oracle") and m["oracle"] != name:
                continue
            if all(s in detail for s in m.get("contains", [])):
                return e
        return None

    def oracle_failure(self, name, detail, case, variant):
        e = self.match_known(name, detail)
        if e:
            self.known_hit.setdefault(e["id"], {"entry": e, "count": 0, "example": detail})["count"] += 1
        else:
            self.violations.append({"kind": "counterexample", "oracle": name, "detail": detail, "case": slim(case), "variant": variant})

    # C07 IS the agreement of the library with the independent implementation (the model): a
    # different verdict on a concrete message is a failing input of the property itself
    AGREEMENT_IS_THE_PROPERTY = {"C07": {"verdict", "sig_check", "verdict_panic"}}

    def mismatch(self, what, detail, case, variant, model=None):
        if what in self.AGREEMENT_IS_THE_PROPERTY.get(self.prop, ()):
            return self.oracle_failure("agrees_with_reference_implementation", "%s: %s" % (what, detail), case, variant)
        e = self.match_known("mismatch:" + what, detail)
        if e:
            self.known_hit.setdefault(e["id"], {"entry": e, "count": 0, "example": detail})["count"] += 1
        else:
            self.mismatches.append({"kind": "correspondence-broken", "what": what, "detail": detail, "case": slim(case), "model": model, "variant": variant})


def slim(case, limit=20000):
    s = json.dumps(case)
    if len(s) <= limit:
        return case
    c = dict(case)
    c["impl"] = "(omitted: %d bytes; regenerate with the seed)" % len(s)
    return c


def write_replay(prop, seed, n, obj):
    d = os.path.join(VERIF, "replays", prop)
    os.makedirs(d, exist_ok=True)
    path = os.path.join(d, "%s-%d-%d.json" % (time.strftime("%Y%m%dT%H%M%S", time.gmtime()), seed, n))
    obj = dict(obj)
    obj["property"] = prop
    obj["how_to_replay"] = "./check %s --replay %s" % (prop, os.path.relpath(path, VERIF))
    with open(path, "w") as fh:
        json.dump(obj, fh, indent=1)
    return path


def write_evidence(prop, ev, dev=False):
    d = os.path.join(VERIF, "evidence", "dev") if dev else os.path.join(VERIF, "evidence")
    os.makedirs(d, exist_ok=True)
    with open(os.path.join(d, prop + ".json"), "w") as fh:
        json.dump(ev, fh, indent=1)
