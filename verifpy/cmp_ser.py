"""Comparators for C15 (serialisation round trips, wire layout, golden artefacts, legacy layouts)
and C16 (decoding accepts only canonical members).

C15 — `wire_check` / `golden_scenario` / `legacy_check` case lines carry the verdicts of the
direct oracles evaluated by the harness on the real code (`impl.failed`: JSON round trip,
MessagePack compact and named round trips, re-serialisation equality, golden artefacts decode
to equal working objects, legacy vectors).  The model side (`cldrv`) checks the emitted document
against the frozen layout table of `Model/Wire.lean` (key sets exactly as the skip rules
prescribe) and decodes every primitive leaf with `Model/Curve`, `Model/Scalar`, `Model/BigNum`:
the text form must be accepted by the decoder as modelled AND by the specification, and the
binary form must be the bytes of the same value.

C16 — `decode` case lines: observable `ok/err/panic/hang` + re-encoding of the real decoder,
compared with `impl*` (model fidelity; outside the modelled domain `dep` no comparison) and
with `spec*` (the property).
"""
import os, subprocess, sys

VERIF = os.path.dirname(os.path.dirname(os.path.abspath(__file__)))


def _short(s, n=90):
    s = str(s)
    return s if len(s) <= n else s[:n] + "...(%d chars)" % len(s)


def _driver_failed(model, case, F, variant):
    if model is None or "error" in model:
        F.mismatch("driver", "model driver failed on %s %s: %s" % (case["op"], case.get("class", {}).get("kind", case["in"].get("type")), (model or {}).get("error")), case, variant)
        return True
    return False


# ------------------------------------------------------------------ C15

def _report_failed(case, F, variant):
    for o in (case.get("impl") or {}).get("failed", []) or []:
        F.oracle_failure(o["name"], o["detail"], case, variant)


def cmp_wire_check(prop, case, model, mat, F, variant, final):
    impl = case["impl"]
    if not final:
        return not impl.get("failed")
    _report_failed(case, F, variant)
    if _driver_failed(model, case, F, variant):
        return False
    ty = case["in"]["type"]
    if not model.get("ok"):
        for p in model.get("problems", [])[:3]:
            F.mismatch("wire_layout", "type=%s variant=%s%s: %s" % (ty, case["in"].get("variant"), " golden=%s" % case["in"]["golden"] if case["in"].get("golden") else "", _short(p, 300)), case, variant, model)
    return not impl.get("failed") and model.get("ok", False)


def cmp_golden_scenario(prop, case, model, mat, F, variant, final):
    if not final:
        return not case["impl"].get("failed")
    _report_failed(case, F, variant)
    return not case["impl"].get("failed")


def cmp_legacy_check(prop, case, model, mat, F, variant, final):
    if not final:
        return not case["impl"].get("failed")
    _report_failed(case, F, variant)
    if _driver_failed(model, case, F, variant):
        return False
    if model.get("skipped"):
        return False
    name = case["in"].get("name")
    if not model.get("model_decodes") or not model.get("equal") or not model.get("converted_equal"):
        F.mismatch("legacy_conversion", "legacy vector %s: the object decoded by the library differs from the model's conversion (%s)" % (name, {k: model.get(k) for k in ("model_decodes", "equal", "converted_equal")}), case, variant, model)
    if model.get("emits_legacy"):
        F.oracle_failure("legacy_not_emitted", "legacy vector %s: the current layout contains the legacy field" % name, case, variant)
    return not case["impl"].get("failed")


def post_compare_c15(prop, runs, F):
    """the layout recorded in Model/Wire.lean is what the source tree declares (tools/record_wire.py)"""
    p = subprocess.run([sys.executable, os.path.join(VERIF, "tools", "record_wire.py"), "--repo", os.environ.get("VERIF_REPO", "/repo"), "--check"], capture_output=True, text=True)
    if p.returncode != 0:
        F.mismatch("wire_tables_recorded", "serde layout declared in src/types.rs differs from the recorded table: %s" % p.stdout[-1500:], {"id": "record_wire"}, "source")
    return {"record_wire": p.stdout.strip()[-300:]}


# ------------------------------------------------------------------ C16

def cmp_decode(prop, case, model, mat, F, variant, final):
    impl = case["impl"]
    st = impl.get("status")
    if not final:
        return st == "ok"
    cin = case["in"]
    kind = case.get("class", {}).get("kind", "%s/%s" % (cin["type"], cin["form"]))
    where = "type=%s form=%s kind=%s backend=%s input=%r" % (cin["type"], cin["form"], kind, cin.get("backend"), _short(cin["input"]))
    # ---- direct oracles on the implementation (independent of the model)
    if st in ("panic", "hang"):
        F.oracle_failure("decode_no_panic", "%s: decoder %s (%s)" % (where, st, _short(impl.get("msg", ""), 80)), case, variant)
    if st == "ok":
        if impl.get("canon_status"):
            F.oracle_failure("reencode_stable", "%s: accepted value cannot be re-encoded (%s)" % (where, impl["canon_status"]), case, variant)
        elif impl.get("re_status") != "ok" or not impl.get("re_equal"):
            F.oracle_failure("reencode_stable", "%s: re-encoding %r decodes to %s / equal=%s" % (where, _short(impl.get("canon")), impl.get("re_status"), impl.get("re_equal")), case, variant)
        elif not impl.get("re_stable"):
            F.oracle_failure("reencode_stable", "%s: re-encoding is not a fixed point" % where, case, variant)
    for w, r in (impl.get("wrappers") or {}).items():
        if w.startswith("invalid_tail:"):
            # the byte sequence followed by an element that is not a u8 is not an encoding of anything
            if r.get("status") == "ok" and cin["form"] == "bytes":
                F.oracle_failure("seq_invalid_element_swallowed", "type=%s via=%s backend=%s: the sequence [<%d bytes>, 300] is accepted (the element that is not a u8 is dropped silently)" % (cin["type"], w.split(":", 1)[1], cin.get("backend"), len(cin["input"]) // 2), case, variant)
            continue
        if r.get("status") != st:
            F.oracle_failure("wrapper_agrees_with_primitive", "%s: %s returns %s, the primitive's own decoder %s" % (where, w, r.get("status"), st), case, variant)
    if _driver_failed(model, case, F, variant):
        return False
    # ---- the property: accepted => member (spec accepts), and the same value
    if st == "ok" and model["spec"] == "err":
        F.oracle_failure("accepts_non_member", "%s: reason=%s is_inf=%s: accepted (re-encoded as %r) but not an encoding of a member of the type" % (where, model.get("spec_why", "not_a_numeral"), impl.get("inf"), _short(impl.get("canon"), 60)), case, variant)
    elif st == "ok" and model["spec"] == "ok":
        same = impl.get("bytes") == model.get("spec_bytes") or (model.get("spec_inf") and impl.get("inf"))
        if not same:
            F.oracle_failure("decodes_to_other_value", "%s: spec_inf=%s is_inf=%s: decoded value %s differs from the denoted value %s" % (where, model.get("spec_inf"), impl.get("inf"), _short(impl.get("bytes"), 70), _short(model.get("spec_bytes"), 70)), case, variant)
    # (a member that is refused is not a failure of C16 — it is counted in the class histogram)
    # ---- correspondence with impl*
    mi = model["impl"]
    if mi == "dep":
        return st == "ok"
    if mi != st:
        F.mismatch("decode_status", "%s: implementation %s, model %s" % (where, st, mi), case, variant, model)
    elif st == "ok":
        if model.get("canon") != impl.get("canon"):
            F.mismatch("decode_canon", "%s: implementation re-encodes as %r, model %r" % (where, _short(impl.get("canon")), _short(model.get("canon"))), case, variant, model)
        elif model.get("bytes") != impl.get("bytes"):
            F.mismatch("decode_bytes", "%s: implementation value %s, model %s" % (where, _short(impl.get("bytes")), _short(model.get("bytes"))), case, variant, model)
    return st == "ok"


COMPARATORS = {"wire_check": cmp_wire_check, "golden_scenario": cmp_golden_scenario, "legacy_check": cmp_legacy_check, "decode": cmp_decode}
