"""Comparator for the adversarial-prover stream (`forge`): the model prover run by a cheating
holder builds a document with a self-consistent Fiat-Shamir transcript; the real verifier must
reject it (C02: no credential at all / C03: predicate about a made-up value), the honest control
must be accepted, and the model verifier's verdict must equal the real one."""
from .cmp_pres import verdict

ORACLES = {
    "C02": {"forgery_rejected", "forge_control_accepted", "unanswered_request_rejected"},
    "C03": {"cheating_predicate_rejected", "forge_control_accepted"},
    "C11": {"common_attribute_enforced"},
    "C20": {"verify_no_panic"},
}


def cmp_forge(prop, case, model, mat, F, variant, final):
    if model is None or "error" in model:
        if final:
            F.mismatch("driver", "model driver failed on %s: %s" % (case["id"], (model or {}).get("error")), case, variant)
        return False
    if model.get("status") != "ok":
        if final:
            F.mismatch("model_forge", "%s: model prover failed: %s" % (case["id"], model), case, variant, model)
        return False
    ex = case["impl"]["exec"]
    inp = dict(ex["in"])
    inp["proof"] = model["proof"]
    r = mat.call(ex["op"], inp)
    if r is None or not final:
        return False if r is None else True
    kind = case.get("class", {}).get("kind")
    vi, vm = verdict(r), verdict(model.get("model_verdict"))
    info = {k: v for k, v in r.items() if k != "oracles"}
    if case["impl"].get("expect_accept"):
        if vi != "accept" and prop in ("C02", "C03"):
            F.oracle_failure("forge_control_accepted", "%s: the real verifier does not accept the honest control of the forging machinery: %s" % (case["id"], info), case, variant)
    else:
        if vi == "accept":
            # every non-control document of this stream is a forgery: accepted = the property fails
            what = {"unit_e": "a proof assembled from the public key alone (unit exponent, mask of %s bits, response for e of %s bits)" % (case["class"].get("e_tilde_bits"), model.get("e_bits")),
                    "zero_a_prime": "a proof assembled from public data alone with A' = %s (T-hat collapses to 0, challenge = hash of public data)" % case["class"].get("which"),
                    "unlinked": "a predicate proven about a made-up value (response not linked to the credential attribute, layout %s)" % case["class"].get("layout"),
                    "duplicate_predicate": "a repeated predicate proof standing in for a requested predicate that is false of the credential",
                    "split_hidden": "a hidden value split into a hidden part and an unrequested revealed entry for '%s' (the credential's value is not what was proven)" % case["class"].get("attr"),
                    "fake_revealed": "a value proven hidden and claimed revealed for '%s' (made-up revealed value, compensated in m)" % case["class"].get("attr"),
                    }.get(kind, "a forged document (%s)" % kind)
            if prop == "C02":
                F.oracle_failure("forgery_rejected", "%s: %s was ACCEPTED by the real verifier" % (case["id"], what), case, variant)
            elif prop == "C03" and kind in ("unlinked", "duplicate_predicate"):
                F.oracle_failure("cheating_predicate_rejected", "%s: %s was ACCEPTED by the real verifier" % (case["id"], what), case, variant)
            elif prop == "C11" and kind == "split_hidden" and case["class"].get("attr") == "master_secret":
                F.oracle_failure("common_attribute_enforced", "%s: %s was ACCEPTED by the real verifier: the link secret proven is not the credential's" % (case["id"], what), case, variant)
        if vi == "panic" and prop == "C20":
            F.oracle_failure("verify_no_panic", "%s: the real verifier panicked on a forged document: %s" % (case["id"], info), case, variant)
    if (vi == "accept") != (vm == "accept"):
        F.mismatch("verdict", "%s: implementation %s, model %s (%s)" % (case["id"], vi, vm, case.get("class")), case, variant, model.get("model_verdict"))
    elif vi != vm:
        F.mismatch("verdict_kind", "%s: implementation %s, model %s (%s) — both reject, in different ways" % (case["id"], vi, vm, case.get("class")), case, variant, model.get("model_verdict"))
    return True


COMPARATORS = {"forge": cmp_forge}
