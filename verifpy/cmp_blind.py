"""Comparators for C12 (blinding values)."""

ORACLE_NAMES = {"fresh_randomness", "draw_in_range", "blinder_in_range", "no_secret_on_wire", "proofs_unlinkable",
                "prover_refuses_hidden_reveal", "top_bit_reached", "low_bits_vary"}


def cmp_draws(prop, case, model, mat, F, variant, final):
    if not final:
        return True
    if model is None or "error" in model:
        F.mismatch("driver", "model driver failed: %s" % (model or {}).get("error"), case, variant)
        return False
    impl = case["impl"]
    kind = case["in"]["kind"]
    if sorted(impl["sizes"]) != sorted(model["sizes"]):
        F.oracle_failure("draw_sizes_prescribed", "%s (%s): bn_rand sizes requested by the library %s differ from the prescribed %s" %
                         (kind, {k: v for k, v in case["in"].items() if k != "kind"}, sorted(impl["sizes"]), sorted(model["sizes"])), case, variant)
    if kind == "sign":
        want = [model["e_start"] * 10000 + model["e_range"]]
        if impl.get("prime_requests") != want or impl.get("vpp_draws") != 1 or impl.get("range_draws") != 1:
            F.oracle_failure("draw_sizes_prescribed", "sign: prime requests %s (expected %s), v'' draws %s, range draws %s" %
                             (impl.get("prime_requests"), want, impl.get("vpp_draws"), impl.get("range_draws")), case, variant)
    return True


def cmp_blind_oracles(prop, case, model, mat, F, variant, final):
    if final:
        for o in case["impl"].get("oracles", []):
            if o["name"] in ORACLE_NAMES:
                F.oracle_failure(o["name"], o["detail"], case, variant)
    return case.get("class", {}).get("kind") == "session"


COMPARATORS = {"draws": cmp_draws, "blind_oracles": cmp_blind_oracles}
