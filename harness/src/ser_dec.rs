// included by ser.rs — stream `dec` (C16): grammar-based and mutational inputs around valid
// encodings of every primitive, decoded through the primitive's own `from_string` /
// `from_bytes` and through every wrapper that embeds it (serde, Tail, Accumulator, Witness, ...)

use amcl::bn254::big::BIG;
use amcl::bn254::ecp2::ECP2;
use amcl::bn254::fp::FP;
use amcl::bn254::fp12::FP12;
use amcl::bn254::fp2::FP2;
use amcl::bn254::rom;

const P_HEX: &str = "2523648240000001BA344D80000000086121000000000013A700000000000013";
const R_HEX: &str = "2523648240000001BA344D8000000007FF9F800000000010A10000000000000D";

struct Gen<'a> {
    rng: &'a mut Rng,
    n: usize,
    hangs: usize,
}

fn rand_big_mod_p(rng: &mut Rng) -> BIG {
    let mut b = BIG::frombytes(&rng.bytes(32));
    b.rmod(&BIG::new_ints(&rom::MODULUS));
    b
}

/// an on-curve point of the twist E'(Fp2) that has NOT been multiplied by the cofactor
fn g2_nonsubgroup(rng: &mut Rng) -> ECP2 {
    loop {
        let x = FP2::new_bigs(&rand_big_mod_p(rng), &rand_big_mod_p(rng));
        let p = ECP2::new_fp2(&x);
        if !p.is_infinity() {
            return p;
        }
    }
}

fn ecp2_bytes(p: &ECP2) -> Vec<u8> {
    let mut b = vec![0u8; 128];
    p.tobytes(&mut b);
    b
}

/// element of the cyclotomic subgroup (passes the Frobenius test of `is_valid_pair`) that is
/// almost surely not of order r: x^((p^6-1)(p^2+1)) for a random x
fn gt_cyclotomic(rng: &mut Rng) -> FP12 {
    let mut buf = vec![0u8; 512];
    for k in 0..12 {
        let mut t = [0u8; 32];
        rand_big_mod_p(rng).tobytes(&mut t);
        buf[32 * k..32 * k + 32].copy_from_slice(&t);
    }
    let mut r = FP12::frombytes(&buf);
    let f = FP2::new_bigs(&BIG::new_ints(&rom::FRA), &BIG::new_ints(&rom::FRB));
    let mut lv = FP12::new_copy(&r);
    lv.inverse();
    r.conj();
    r.mul(&lv);
    lv.copy(&r);
    r.frob(&f);
    r.frob(&f);
    r.mul(&lv);
    r.reduce();
    r
}

fn fp12_bytes(x: &FP12) -> Vec<u8> {
    let mut b = vec![0u8; 512];
    let mut y = FP12::new_copy(x);
    y.tobytes(&mut b);
    b
}

fn big_add_p(tok: &str, k: isize) -> String {
    let mut b = BIG::from_hex(tok.to_string());
    let mut p = BIG::new_ints(&rom::MODULUS);
    p.imul(k);
    b.add(&p);
    b.norm();
    b.to_hex()
}

/// wrappers that embed the primitive: every one must agree with the primitive's own decoder
fn wrappers(ty: &str, form: &str, input: &str) -> Value {
    let mut m = serde_json::Map::new();
    let st = |o: Out<Value>| match o {
        Out::Ok(v) => json!({"status": "ok", "canon": v}),
        o => json!({"status": o.tag()}),
    };
    macro_rules! serde_wrap {
        ($name:expr, $T:ty, $doc:expr, $pick:expr) => {{
            let doc: Value = $doc;
            let d2 = doc.clone();
            m.insert(format!("serde_json:{}", $name), st(guard(|| serde_json::from_value::<$T>(d2).map(|x| $pick(jv(&x))))));
            if let Ok(b) = rmp_serde::to_vec_named(&doc) {
                m.insert(format!("msgpack:{}", $name), st(guard(|| rmp_serde::from_slice::<$T>(&b).map(|x| $pick(jv(&x))))));
            }
        }};
    }
    let id = |v: Value| v;
    if form == "bytes" {
        let b = match unhex(input) {
            Some(b) => b,
            None => return Value::Object(m),
        };
        let arr = json!(b);
        let bytes_of = |v: Value| -> Value { v };
        // the same byte sequence followed by an element that is not a u8: must be refused
        // (`visit_seq` of serialization.rs stops at the first element it cannot read)
        {
            let mut a2: Vec<Value> = b.iter().map(|x| json!(x)).collect();
            a2.push(json!(300));
            let doc = Value::Array(a2);
            macro_rules! tail {
                ($T:ty) => {{
                    let d2 = doc.clone();
                    m.insert("invalid_tail:serde_json".into(), st(guard(|| serde_json::from_value::<$T>(d2).map(|x| jv(&x)))));
                    if let Ok(bb) = rmp_serde::to_vec(&doc) {
                        m.insert("invalid_tail:msgpack".into(), st(guard(|| rmp_serde::from_slice::<$T>(&bb).map(|x| jv(&x)))));
                    }
                }};
            }
            match ty {
                "BigNumber" => tail!(BigNumber),
                "GroupOrderElement" => tail!(vf::GroupOrderElement),
                "PointG1" => tail!(vf::PointG1),
                "PointG2" => tail!(vf::PointG2),
                "PointG2Inf" => tail!(vf::PointG2Inf),
                "Pair" => tail!(vf::Pair),
                _ => {}
            }
        }
        match ty {
            "BigNumber" => {
                if cfg!(feature = "ossl") {
                    serde_wrap!("BigNumber", BigNumber, arr.clone(), bytes_of);
                }
            }
            "GroupOrderElement" => serde_wrap!("GroupOrderElement", vf::GroupOrderElement, arr.clone(), bytes_of),
            "PointG1" => serde_wrap!("PointG1", vf::PointG1, arr.clone(), bytes_of),
            "PointG2" => {
                serde_wrap!("PointG2", vf::PointG2, arr.clone(), bytes_of);
                serde_wrap!("Tail", Tail, arr.clone(), bytes_of);
                m.insert("Tail::from_bytes".into(), st(guard(|| Tail::from_bytes(&b).and_then(|t| t.to_bytes()).map(|x| json!(hex(&x))))));
            }
            "PointG2Inf" => {
                serde_wrap!("PointG2Inf", vf::PointG2Inf, arr.clone(), bytes_of);
                serde_wrap!("Accumulator", Accumulator, arr.clone(), bytes_of);
                serde_wrap!("Witness", Witness, json!({"omega": arr.clone()}), |v: Value| v["omega"].clone());
                m.insert("Accumulator::from_bytes".into(), st(guard(|| Accumulator::from_bytes(&b).and_then(|t| t.to_bytes()).map(|x| json!(hex(&x))))));
            }
            "Pair" => {
                serde_wrap!("Pair", vf::Pair, arr.clone(), bytes_of);
                serde_wrap!("RevocationKeyPublic", RevocationKeyPublic, json!({"z": arr.clone()}), |v: Value| v["z"].clone());
            }
            _ => {}
        }
        return Value::Object(m);
    }
    if form == "hex" {
        return Value::Object(m);
    }
    let s = json!(input);
    match ty {
        "BigNumber" => {
            serde_wrap!("BigNumber", BigNumber, s.clone(), id);
            serde_wrap!("LinkSecret", LinkSecret, json!({"ms": s.clone()}), |v: Value| v["ms"].clone());
            serde_wrap!("CredentialValue", CredentialValue, json!({"Known": {"value": s.clone()}}), |v: Value| v["Known"]["value"].clone());
            m.insert("CredentialValuesBuilder::add_dec_known".into(), st(guard(|| {
                let mut b = Issuer::new_credential_values_builder()?;
                b.add_dec_known("a", input)?;
                Ok::<_, Error>(jv(&b.finalize()?)["attrs_values"]["a"]["Known"]["value"].clone())
            })));
        }
        "GroupOrderElement" => {
            serde_wrap!("GroupOrderElement", vf::GroupOrderElement, s.clone(), id);
            serde_wrap!("RevocationKeyPrivate", RevocationKeyPrivate, json!({"gamma": s.clone()}), |v: Value| v["gamma"].clone());
        }
        "PointG1" => serde_wrap!("PointG1", vf::PointG1, s.clone(), id),
        "PointG2" => {
            serde_wrap!("PointG2", vf::PointG2, s.clone(), id);
            serde_wrap!("Tail", Tail, s.clone(), id);
            m.insert("Tail::from_string".into(), st(guard(|| Tail::from_string(input).and_then(|t| t.to_string()).map(|x| json!(x)))));
        }
        "PointG2Inf" => {
            serde_wrap!("PointG2Inf", vf::PointG2Inf, s.clone(), id);
            serde_wrap!("Accumulator", Accumulator, s.clone(), id);
            serde_wrap!("Witness", Witness, json!({"omega": s.clone()}), |v: Value| v["omega"].clone());
            serde_wrap!("RevocationRegistry", RevocationRegistry, json!({"accum": s.clone()}), |v: Value| v["accum"].clone());
            m.insert("Accumulator::from_string".into(), st(guard(|| Accumulator::from_string(input).and_then(|t| t.to_string()).map(|x| json!(x)))));
        }
        "Pair" => {
            serde_wrap!("Pair", vf::Pair, s.clone(), id);
            serde_wrap!("RevocationKeyPublic", RevocationKeyPublic, json!({"z": s.clone()}), |v: Value| v["z"].clone());
        }
        _ => {}
    }
    Value::Object(m)
}

impl<'a> Gen<'a> {
    fn case(&mut self, ty: &str, form: &str, input: &str, kind: &str) {
        let ms = 3000;
        let imp = decode_case(ty, form, input, ms);
        if imp["status"] == "hang" {
            self.hangs += 1;
        }
        let mut imp = imp;
        // wrappers only when the primitive returned (a hanging input would hang them too)
        if imp["status"] != "hang" {
            let (t, f, i) = (ty.to_string(), form.to_string(), input.to_string());
            imp["wrappers"] = with_timeout(4 * ms, move || wrappers(&t, &f, &i)).unwrap_or(json!({"timeout": {"status": "hang"}}));
        }
        emit(&json!({"id": format!("dec/{}", self.n), "op": "decode",
            "in": {"type": ty, "form": form, "input": input, "backend": backend_str()},
            "impl": imp,
            "class": {"type": format!("{}/{}", ty, form), "kind": format!("{}/{}/{}", ty, form, kind), "status": imp_status(&imp)}}));
        self.n += 1;
    }
}

fn imp_status(v: &Value) -> String {
    v["status"].as_str().unwrap_or("?").to_string()
}

fn rand_digits(rng: &mut Rng, n: usize) -> String {
    (0..n).map(|i| if i == 0 { (b'1' + rng.below(9) as u8) as char } else { (b'0' + rng.below(10) as u8) as char }).collect()
}

fn gen_integers(g: &mut Gen<'_>, thorough: bool) {
    // ---- decimal text
    let fixed = ["0", "1", "-1", "-0", "00", "007", "-007", "5x", "5 ", " 5", "5\n", "\t5", "+5", "++5", "-+5", "+-5", "--5", "-", "+", "", " ", "5.0", "5e3", "0x10", "1_000", "_1", "1_",
        "1__0", "-_1", "5\u{0}", "5\u{0}6", "\u{0}", "\u{ff15}", "\u{0665}", "1\u{00a0}", "12a", "a", "A", "ff", "1,000", "1 000", "٣", "5-", "5+", "0-1", "²", "1\r\n", "-\u{2212}1", "\u{2212}1",
        "18446744073709551616", "-18446744073709551616", "340282366920938463463374607431768211456"];
    for s in fixed {
        g.case("BigNumber", "text", s, "fixed");
    }
    let n = if thorough { 4000 } else { 260 };
    for _ in 0..n {
        let digits = match g.rng.below(4) {
            0 => { let k_ = 1 + g.rng.below(6) as usize; rand_digits(g.rng, k_) },
            1 => { let k_ = 1 + g.rng.below(80) as usize; rand_digits(g.rng, k_) },
            2 => { let k_ = 300 + g.rng.below(400) as usize; rand_digits(g.rng, k_) },
            _ => format!("{}{}", "0".repeat(g.rng.below(4) as usize), { let k_ = 1 + g.rng.below(20) as usize; rand_digits(g.rng, k_) }),
        };
        let (s, kind): (String, &str) = match g.rng.below(12) {
            0 | 1 => (digits, "numeral"),
            2 => (format!("-{}", digits), "negative_numeral"),
            3 => (format!("+{}", digits), "plus_sign"),
            4 => (format!("{}{}", digits, g.rng.pick(&["x", " ", "\n", ".", "e1", "_", "-", "\u{0}", "g", "\t", "٣"])), "trailing_garbage"),
            5 => (format!("{}{}", g.rng.pick(&[" ", "\n", "\t", "x", "_", "0x", "\u{feff}"]), digits), "leading_garbage"),
            6 => {
                let k = g.rng.below(digits.len() as u64 + 1) as usize;
                (format!("{}{}{}", &digits[..k], g.rng.pick(&["_", " ", "x", "-", ",", "a", "\u{0}"]), &digits[k..]), "inner_garbage")
            }
            7 => (format!("-{}{}", digits, g.rng.pick(&["x", " ", "_"])), "negative_trailing_garbage"),
            8 => (format!("{}{}", g.rng.pick(&["--", "-+", "+-", "++", "- ", "-_"]), digits), "double_sign"),
            9 => (digits.chars().map(|c| char::from_u32(0xff10 + c.to_digit(10).unwrap()).unwrap()).collect(), "unicode_digits"),
            10 => (format!("{}{}", digits, rand_digits(g.rng, 5)), "numeral"),
            _ => (format!("-{}", "0".repeat(1 + g.rng.below(3) as usize)), "negative_zero"),
        };
        g.case("BigNumber", "text", &s, kind);
    }
    // ---- hexadecimal text (BigNumber::from_hex is public API, not used by serde)
    for s in ["0", "ff", "FF", "-ff", "+ff", "0x10", "fg", "f_f", "", "-", " f", "f ", "00ff", "-0", "g", "f\u{0}"] {
        g.case("BigNumber", "hex", s, "fixed");
    }
    for _ in 0..(if thorough { 600 } else { 60 }) {
        let h = { let k_ = 1 + g.rng.below(600) as usize; g.rng.hex_bits(k_) };
        let (s, kind) = match g.rng.below(6) {
            0 => (h, "numeral"),
            1 => (h.to_lowercase(), "numeral_lowercase"),
            2 => (format!("-{}", h), "negative_numeral"),
            3 => (format!("{}{}", h, g.rng.pick(&["g", " ", "x", "_", "-"])), "trailing_garbage"),
            4 => (format!("{}{}", g.rng.pick(&["+", " ", "0x", "_"]), h), "leading_garbage"),
            _ => (format!("00{}", h), "leading_zeros"),
        };
        g.case("BigNumber", "hex", &s, kind);
    }
    // ---- bytes: every byte string denotes a natural number
    for b in [vec![], vec![0], vec![0, 0], vec![1], vec![0, 1], vec![255], vec![1, 0], vec![0; 40]] {
        g.case("BigNumber", "bytes", &hex(&b), "fixed");
    }
    for _ in 0..(if thorough { 600 } else { 60 }) {
        let lim_ = if g.rng.chance(1, 4) { 400 } else { 40 };
        let len_ = g.rng.below(lim_) as usize;
        let mut b = g.rng.bytes(len_);
        let kind = if g.rng.chance(1, 4) {
            b.insert(0, 0);
            "leading_zero_byte"
        } else {
            "random"
        };
        g.case("BigNumber", "bytes", &hex(&b), kind);
    }
}

fn gen_scalars(g: &mut Gen<'_>, thorough: bool) {
    let fixed: Vec<String> = vec!["".into(), "0".into(), "1".into(), "f".into(), "F".into(), "g".into(), "+5".into(), "-1".into(), " 1".into(), "1 ".into(), "0x1".into(), "1_0".into(),
        R_HEX.into(), R_HEX.to_lowercase(), format!("0{}", R_HEX), format!("{}C", &R_HEX[..63]), format!("{}E", &R_HEX[..63]), "F".repeat(64), "F".repeat(65), "F".repeat(71), "F".repeat(72), "0".repeat(72),
        "0".repeat(71), format!("{}1", "0".repeat(71)), "1".repeat(100), "\u{ff11}".into(), "1\u{0}".into(), "é".into(), format!("{}é", "1".repeat(10))];
    for s in &fixed {
        g.case("GroupOrderElement", "text", s, "fixed");
    }
    for _ in 0..(if thorough { 3000 } else { 220 }) {
        let (s, kind): (String, &str) = match g.rng.below(10) {
            0 | 1 => (format!("{:0>64}", g.rng.hex_bits(250)), "valid64"),
            2 => ({ let k_ = 1 + g.rng.below(256) as usize; g.rng.hex_bits(k_) }, "short"),
            3 => (format!("{:0>64}", g.rng.hex_bits(250)).to_lowercase(), "valid64_lowercase"),
            4 => (g.rng.hex_bits(256), "ge_r_or_random256"),
            5 => ({ let k_ = 257 + g.rng.below(27) as usize; g.rng.hex_bits(k_) }, "len65_71"),
            6 => {
                let h = format!("{:0>64}", g.rng.hex_bits(250));
                let k = g.rng.below(64) as usize;
                (format!("{}{}{}", &h[..k], g.rng.pick(&["g", " ", "-", "_", "x", "\u{0}", "é"]), &h[k + 1..]), "nonhex_inside")
            }
            7 => (format!("{}{:0>64}", g.rng.pick(&["+", "-", " ", "0x"]), g.rng.hex_bits(250)), "prefix"),
            8 => (format!("{:0>64}{}", g.rng.hex_bits(250), g.rng.pick(&[" ", "\n", "h"])), "suffix"),
            _ => ({ let k_ = 285 + g.rng.below(400) as usize; g.rng.hex_bits(k_) }, "overlong"),
        };
        g.case("GroupOrderElement", "text", &s, kind);
    }
    for len in 0..=40usize {
        for fill in 0..3 {
            let b: Vec<u8> = match fill {
                0 => vec![0; len],
                1 => vec![255; len],
                _ => g.rng.bytes(len),
            };
            g.case("GroupOrderElement", "bytes", &hex(&b), if len == 32 { "len32" } else if len < 32 { "short" } else { "long" });
        }
    }
    let r_bytes = unhex(&R_HEX.to_lowercase()).unwrap();
    g.case("GroupOrderElement", "bytes", &hex(&r_bytes), "eq_r");
    let mut rm1 = r_bytes.clone();
    rm1[31] -= 1;
    g.case("GroupOrderElement", "bytes", &hex(&rm1), "r_minus_1");
    for _ in 0..(if thorough { 500 } else { 40 }) {
        let mut b = g.rng.bytes(32);
        let kind = if g.rng.chance(1, 2) {
            b[0] &= 0x1f;
            "len32_reduced_likely"
        } else {
            b[0] |= 0x40;
            "len32_ge_r"
        };
        g.case("GroupOrderElement", "bytes", &hex(&b), kind);
    }
}

/// mutations of the text form shared by G1 (3 components), G2 (6) and Pair (12)
fn text_mutations(g: &mut Gen<'_>, ty: &str, valid: &str, ncomp: usize, n_random: usize) {
    let toks: Vec<String> = valid.split(' ').map(|s| s.to_string()).collect();
    assert_eq!(toks.len(), 2 * ncomp);
    let join = |t: &[String]| t.join(" ");
    let with = |i: usize, s: String| {
        let mut t = toks.clone();
        t[i] = s;
        t.join(" ")
    };
    g.case(ty, "text", valid, "valid");
    g.case(ty, "text", &valid.to_lowercase(), "valid_lowercase");
    // component counts
    g.case(ty, "text", &join(&toks[..toks.len() - 1]), "count_minus_token");
    g.case(ty, "text", &join(&toks[..toks.len() - 2]), "count_minus_component");
    g.case(ty, "text", &format!("{} 1", valid), "count_plus_token");
    g.case(ty, "text", &format!("{} {} {}", valid, toks[0], toks[1]), "count_plus_component");
    g.case(ty, "text", &format!("{} {}", valid, valid), "doubled");
    g.case(ty, "text", "", "empty");
    g.case(ty, "text", ",", "comma");
    // whitespace
    g.case(ty, "text", &valid.replace(' ', "\t"), "ws_tabs");
    g.case(ty, "text", &valid.replace(' ', "\n"), "ws_newlines");
    g.case(ty, "text", &valid.replace(' ', "  "), "ws_double");
    g.case(ty, "text", &format!("  {} \n", valid), "ws_leading_trailing");
    g.case(ty, "text", &valid.replacen(' ', "\u{a0}", 1), "ws_nbsp");
    g.case(ty, "text", &valid.replacen(' ', "\u{2003}", 1), "ws_emspace");
    g.case(ty, "text", &valid.replacen(' ', "\u{b}", 1), "ws_vtab");
    g.case(ty, "text", &valid.replacen(' ', "\u{c}", 1), "ws_formfeed");
    g.case(ty, "text", &valid.replace(' ', ","), "commas");
    // excess / index token
    for (x, kind) in [("0", "xes_zero"), ("-1", "xes_negative"), ("+1", "xes_plus"), ("01", "xes_leading_zero"), ("2147483647", "xes_i32max"), ("2147483648", "xes_gt_i32max"),
        ("4294967295", "xes_u32max"), ("4294967296", "xes_gt_u32max"), ("1.0", "xes_decimal_point"), ("a", "xes_letter"), ("", "xes_missing"), ("3", "xes_3"), ("17", "xes_17"), ("65536", "xes_65536"), ("1073741824", "xes_2p30")] {
        let i = 2 * (g.rng.below(ncomp as u64) as usize);
        if x.is_empty() {
            let mut t = toks.clone();
            t.remove(i);
            g.case(ty, "text", &t.join(" "), kind);
        } else {
            g.case(ty, "text", &with(i, x.to_string()), kind);
        }
    }
    // hex token
    for k in 0..n_random {
        let c = g.rng.below(ncomp as u64) as usize;
        let i = 2 * c + 1;
        let h = &toks[i];
        let (s, kind): (String, &str) = match k % 12 {
            0 => {
                let p = g.rng.below(h.len() as u64) as usize;
                (with(i, format!("{}{}{}", &h[..p], g.rng.pick(&["g", "-", "_", "x", "é", "+"]), &h[p + 1..])), "nonhex")
            }
            1 => {
                let p = g.rng.below(h.len() as u64) as usize;
                let d = u8::from_str_radix(&h[p..p + 1], 16).unwrap();
                (with(i, format!("{}{:X}{}", &h[..p], (d + 1 + g.rng.below(15) as u8) % 16, &h[p + 1..])), "digit_changed_offcurve")
            }
            2 => (with(i, h.trim_start_matches('0').to_string() + if h.trim_start_matches('0').is_empty() { "0" } else { "" }), "hex_leading_zeros_stripped"),
            3 => (with(i, format!("{}{}", "0".repeat(1 + g.rng.below(8) as usize), h)), "hex_leading_zeros_added"),
            4 => (with(i, format!("{}{}", "0".repeat(8 + g.rng.below(30) as usize), h)), "hex_72plus_leading_zeros"),
            5 => (with(i, format!("{}{}{}", g.rng.hex_bits(64), "0".repeat(8), h)), "hex_overlong_high_garbage_beyond_288_bits"),
            6 => (with(i, format!("{}{}", g.rng.hex_bits(24), h)), "hex_oversize_limb_bits_256_287"),
            7 => (with(i, big_add_p(h, 1)), "residue_plus_p"),
            8 => (with(i, big_add_p(h, 2 + g.rng.below(3) as isize)), "residue_plus_kp"),
            9 => (with(i, h[..h.len() - 1 - g.rng.below(8) as usize].to_string()), "hex_truncated"),
            10 => (with(i, String::new()).replace("  ", " "), "hex_missing"),
            _ => (with(i, format!("{:0>64}", g.rng.hex_bits(253))), "component_random"),
        };
        g.case(ty, "text", &s, kind);
    }
    // excess raised consistently (x < xes*p still holds): non-canonical but well-formed
    for (x, kind) in [("2", "xes_all_2"), ("5", "xes_all_5"), ("16", "xes_all_16"), ("100", "xes_all_100")] {
        let mut t = toks.clone();
        for c in 0..ncomp {
            t[2 * c] = x.to_string();
        }
        g.case(ty, "text", &t.join(" "), kind);
    }
    // excess lowered to 1 everywhere (violates x < xes*p when a residue is >= p)
    let mut t = toks.clone();
    for c in 0..ncomp {
        t[2 * c] = "1".to_string();
    }
    g.case(ty, "text", &t.join(" "), "xes_all_1");
}

fn fp_hex(tok_xes: &str, tok_hex: &str) -> FP {
    FP::from_hex(format!("{} {}", tok_xes, tok_hex))
}

/// projective rescaling of a point given in text form: (λX, λY, λZ) — same point, other text
fn rescale_text(valid: &str, rng: &mut Rng) -> String {
    let toks: Vec<&str> = valid.split(' ').collect();
    let lam = FP::new_big(&rand_big_mod_p(rng));
    let mut out = vec![];
    for c in 0..toks.len() / 2 {
        let mut f = fp_hex(toks[2 * c], toks[2 * c + 1]);
        f.mul(&lam);
        out.push(f.to_hex());
    }
    out.join(" ")
}

fn gen_points(g: &mut Gen<'_>, thorough: bool) -> Result<(), String> {
    let reps = if thorough { 12 } else { 2 };
    let nrand = if thorough { 120 } else { 36 };
    let zero64 = "0".repeat(64);
    let one_m = "095E45DDF417D05FB10933FFC63D474548B7FFFF7888802F07FFFFFF7D07A8A8"; // R mod p = Montgomery form of 1
    for rep in 0..reps {
        let e = vf::GroupOrderElement::from_string(&g.rng.hex_bits(250)).map_err(es)?;
        // ------------------------------------------------ G1
        let p1 = if rep == 0 { vf::PointG1::new_generator().map_err(es)? } else { vf::PointG1::new_generator().map_err(es)?.mul(&e).map_err(es)? };
        let t1 = p1.to_string().map_err(es)?;
        text_mutations(g, "PointG1", &t1, 3, nrand);
        let rs_ = rescale_text(&t1, g.rng);
        g.case("PointG1", "text", &rs_, "projective_rescaled");
        let inf1 = format!("1 {} 2 {} 1 {}", zero64, one_m, zero64);
        g.case("PointG1", "text", &inf1, "identity");
        g.case("PointG1", "text", &format!("1 {} 1 {} 1 {}", zero64, zero64, zero64), "identity_all_zero");
        g.case("PointG1", "text", &format!("1 {} 1 {} 1 {}", P_HEX, one_m, P_HEX), "identity_as_residue_p");
        g.case("PointG1", "text", &format!("2 {} 1 {} 2 {}", P_HEX, one_m, P_HEX), "identity_as_residue_p_xes2");
        g.case("PointG1", "text", &format!("1 {} 1 {} 1 {}", zero64, one_m, one_m), "x0_z1_offcurve");
        let b1 = p1.to_bytes().map_err(es)?;
        bytes_mutations(g, "PointG1", &b1, nrand);
        // G1 specifics: tag byte, compressed forms, padding
        for tag in [0u8, 1, 2, 3, 5, 6, 7, 255] {
            let mut b = b1.clone();
            b[0] = tag;
            g.case("PointG1", "bytes", &hex(&b), &format!("tag_{:02x}", tag));
        }
        let mut b = b1.clone();
        b[65 + g.rng.below(63) as usize] = 1 + g.rng.below(255) as u8;
        g.case("PointG1", "bytes", &hex(&b), "padding_nonzero");
        let mut b = vec![0u8; 128];
        b[0] = 4;
        b[64] = 1;
        g.case("PointG1", "bytes", &hex(&b), "identity");
        g.case("PointG1", "bytes", &hex(&vec![0u8; 128]), "all_zero");
        // ------------------------------------------------ G2 / G2Inf
        let p2 = if rep == 0 { vf::PointG2::new_generator().map_err(es)? } else { vf::PointG2::new_generator().map_err(es)?.mul(&e).map_err(es)? };
        let t2 = p2.to_string().map_err(es)?;
        let b2 = p2.to_bytes().map_err(es)?;
        let inf2 = format!("1 {z} 1 {z} 2 {o} 1 {z} 1 {z} 1 {z}", z = zero64, o = one_m);
        for ty in ["PointG2", "PointG2Inf"] {
            text_mutations(g, ty, &t2, 6, if ty == "PointG2" { nrand } else { nrand / 2 });
            let rs_ = rescale_text(&t2, g.rng);
            g.case(ty, "text", &rs_, "projective_rescaled");
            g.case(ty, "text", &inf2, "identity");
            g.case(ty, "text", &vec![format!("1 {}", zero64); 6].join(" "), "identity_all_zero");
            g.case(ty, "text", &format!("1 {p} 1 {p} 1 {o} 1 {z} 1 {p} 1 {p}", p = P_HEX, o = one_m, z = zero64), "identity_as_residue_p");
            g.case(ty, "text", &format!("1 {z} 1 {z} 1 {o} 1 {o} 1 {z} 1 {z}", z = zero64, o = one_m), "identity_other_y");
            for _ in 0..(if thorough { 6 } else { 2 }) {
                let q = g2_nonsubgroup(g.rng);
                g.case(ty, "text", &q.to_hex(), "oncurve_nonsubgroup");
                g.case(ty, "bytes", &hex(&ecp2_bytes(&q)), "oncurve_nonsubgroup");
                // the same point plus a subgroup point: still outside the subgroup
                let mut q2 = q;
                q2.add(&ECP2::generator());
                g.case(ty, "text", &q2.to_hex(), "oncurve_nonsubgroup_projective");
            }
            bytes_mutations(g, ty, &b2, if ty == "PointG2" { nrand } else { nrand / 2 });
            let mut idb = vec![0u8; 128];
            idb[95] = 1;
            g.case(ty, "bytes", &hex(&idb), "identity");
            g.case(ty, "bytes", &hex(&vec![0u8; 128]), "all_zero");
            // coordinate + p (still below 2^256): the same point in a second encoding
            for c in 0..4 {
                let mut b = b2.clone();
                let tok = hex(&b[32 * c..32 * c + 32]).to_uppercase();
                let s = big_add_p(&tok, 1 + g.rng.below(5) as isize);
                if s.len() == 64 {
                    b[32 * c..32 * c + 32].copy_from_slice(&unhex(&s.to_lowercase()).unwrap());
                    g.case(ty, "bytes", &hex(&b), "coordinate_plus_kp");
                }
            }
        }
        // ------------------------------------------------ Pair
        let z = vf::Pair::pair(&p1, &p2).map_err(es)?;
        let tz = z.to_string().map_err(es)?;
        text_mutations(g, "Pair", &tz, 12, nrand / 2);
        g.case("Pair", "text", &vec![format!("1 {}", zero64); 12].join(" "), "zero");
        g.case("Pair", "text", &format!("2 {} {}", one_m, vec![format!("1 {}", zero64); 11].join(" ")), "unity");
        for _ in 0..(if thorough { 6 } else { 2 }) {
            let c = gt_cyclotomic(g.rng);
            g.case("Pair", "text", &c.to_hex(), "cyclotomic_not_order_r");
            g.case("Pair", "bytes", &hex(&fp12_bytes(&c)), "cyclotomic_not_order_r");
        }
        let bz = z.to_bytes().map_err(es)?;
        g.case("Pair", "bytes", &hex(&bz), "valid");
        g.case("Pair", "bytes", &hex(&bz[..511]), "truncated");
        g.case("Pair", "bytes", &hex(&bz[..384]), "truncated_384");
        let mut ext = bz.clone();
        ext.push(0);
        g.case("Pair", "bytes", &hex(&ext), "extended");
        g.case("Pair", "bytes", "", "empty");
        g.case("Pair", "bytes", &hex(&vec![0u8; 512]), "zero");
        let mut ub = vec![0u8; 512];
        ub[31] = 1;
        g.case("Pair", "bytes", &hex(&ub), "unity");
        let gb_ = g.rng.bytes(512);
        g.case("Pair", "bytes", &hex(&gb_), "garbage");
        let mut b = bz.clone();
        b[g.rng.below(384) as usize] ^= 1 << g.rng.below(8);
        g.case("Pair", "bytes", &hex(&b), "bit_flipped");
        let mut b = bz.clone();
        b[384 + g.rng.below(128) as usize] = 7;
        g.case("Pair", "bytes", &hex(&b), "padding_nonzero");
    }
    Ok(())
}

fn bytes_mutations(g: &mut Gen<'_>, ty: &str, valid: &[u8], n_random: usize) {
    g.case(ty, "bytes", &hex(valid), "valid");
    g.case(ty, "bytes", "", "empty");
    for cut in [1usize, 32, 63, 64, 127] {
        g.case(ty, "bytes", &hex(&valid[..valid.len() - cut]), "truncated");
    }
    for add in [1usize, 32, 128] {
        let mut b = valid.to_vec();
        b.extend(std::iter::repeat(0).take(add));
        g.case(ty, "bytes", &hex(&b), "extended");
    }
    for k in 0..n_random {
        let mut b = valid.to_vec();
        let used = if ty == "PointG1" { 65 } else { 128 };
        let kind = match k % 4 {
            0 => {
                b[g.rng.below(used) as usize] ^= 1 << g.rng.below(8);
                "bit_flipped_offcurve"
            }
            1 => {
                b = g.rng.bytes(128);
                "garbage"
            }
            2 => {
                let c = g.rng.below(if ty == "PointG1" { 2 } else { 4 }) as usize;
                let off = if ty == "PointG1" { 1 } else { 0 } + 32 * c;
                for x in b[off..off + 32].iter_mut() {
                    *x = 0xff;
                }
                "coordinate_ge_p"
            }
            _ => {
                let c = g.rng.below(if ty == "PointG1" { 2 } else { 4 }) as usize;
                let off = if ty == "PointG1" { 1 } else { 0 } + 32 * c;
                let r = g.rng.bytes(32);
                b[off..off + 32].copy_from_slice(&r);
                b[off] &= 0x1f;
                "coordinate_random"
            }
        };
        g.case(ty, "bytes", &hex(&b), kind);
    }
}

fn gen_dec(thorough: bool, rng: &mut Rng) -> Result<(), String> {
    let t = std::time::Instant::now();
    let mut g = Gen { rng, n: 0, hangs: 0 };
    gen_integers(&mut g, thorough);
    eprintln!("dec integers: {} cases, {:.1}s", g.n, t.elapsed().as_secs_f64());
    gen_scalars(&mut g, thorough);
    eprintln!("dec +scalars: {} cases, {:.1}s", g.n, t.elapsed().as_secs_f64());
    gen_points(&mut g, thorough)?;
    eprintln!("dec +points: {} cases, {} hangs, {:.1}s", g.n, g.hangs, t.elapsed().as_secs_f64());
    Ok(())
}

/// exec op: sample encodings for experiments / replays
fn samples(_inp: &Value) -> Result<Value, String> {
    let mut rng = Rng::new(7);
    let q = g2_nonsubgroup(&mut rng);
    let c = gt_cyclotomic(&mut rng);
    Ok(json!({"g2_nonsubgroup_text": q.to_hex(), "g2_nonsubgroup_bytes": hex(&ecp2_bytes(&q)),
        "gt_cyclotomic_text": c.to_hex(), "gt_cyclotomic_bytes": hex(&fp12_bytes(&c))}))
}
