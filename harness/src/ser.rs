//! C15 (stream `ser`): serialisation round trips of every serialisable public type, the
//! documents handed to the model's `wire_check`, golden artefacts.
//! C16 (stream `dec`): decoding of primitives from text / bytes (grammar-based and mutational).
//! The flows and generators live in `ser_flow.rs` / `ser_dec.rs` (included below) to keep the
//! files readable; this file holds the shared machinery.
use crate::rng::Rng;
use crate::util::*;
use anoncreds_clsignatures::bn::BigNumber;
use anoncreds_clsignatures::verif as vf;
use anoncreds_clsignatures::*;
use serde::de::DeserializeOwned;
use serde::Serialize;
use serde_json::{json, Value};
use std::sync::mpsc;
use std::time::Duration;

pub fn backend_str() -> &'static str {
    if cfg!(feature = "ossl") {
        "openssl"
    } else {
        "rust"
    }
}

// ------------------------------------------------------------------ watchdog

/// run `f` on its own thread; `None` if it has not returned after `ms` (the thread is abandoned)
pub fn with_timeout<T: Send + 'static>(ms: u64, f: impl FnOnce() -> T + Send + 'static) -> Option<T> {
    let (tx, rx) = mpsc::channel();
    std::thread::spawn(move || {
        let _ = tx.send(f());
    });
    rx.recv_timeout(Duration::from_millis(ms)).ok()
}

// ------------------------------------------------------------------ primitives

#[derive(Clone, Debug, PartialEq)]
pub enum Val {
    Bn(BigNumber),
    Sc(vf::GroupOrderElement),
    G1(vf::PointG1),
    G2(vf::PointG2),
    G2I(vf::PointG2Inf),
    Pair(vf::Pair),
}

pub const PRIMS: [&str; 6] = ["BigNumber", "GroupOrderElement", "PointG1", "PointG2", "PointG2Inf", "Pair"];

pub fn dec_text(ty: &str, form: &str, s: &str) -> Result<Val, String> {
    let e = |x: Error| x.to_string();
    Ok(match (ty, form) {
        ("BigNumber", "hex") => Val::Bn(BigNumber::from_hex(s).map_err(e)?),
        ("BigNumber", _) => Val::Bn(BigNumber::from_dec(s).map_err(e)?),
        ("GroupOrderElement", _) => Val::Sc(vf::GroupOrderElement::from_string(s).map_err(e)?),
        ("PointG1", _) => Val::G1(vf::PointG1::from_string(s).map_err(e)?),
        ("PointG2", _) => Val::G2(vf::PointG2::from_string(s).map_err(e)?),
        ("PointG2Inf", _) => Val::G2I(vf::PointG2Inf::from_string(s).map_err(e)?),
        ("Pair", _) => Val::Pair(vf::Pair::from_string(s).map_err(e)?),
        _ => return Err(format!("unknown primitive {}", ty)),
    })
}

pub fn dec_bytes(ty: &str, b: &[u8]) -> Result<Val, String> {
    let e = |x: Error| x.to_string();
    Ok(match ty {
        "BigNumber" => Val::Bn(BigNumber::from_bytes(b).map_err(e)?),
        "GroupOrderElement" => Val::Sc(vf::GroupOrderElement::from_bytes(b).map_err(e)?),
        "PointG1" => Val::G1(vf::PointG1::from_bytes(b).map_err(e)?),
        "PointG2" => Val::G2(vf::PointG2::from_bytes(b).map_err(e)?),
        "PointG2Inf" => Val::G2I(vf::PointG2Inf::from_bytes(b).map_err(e)?),
        "Pair" => Val::Pair(vf::Pair::from_bytes(b).map_err(e)?),
        _ => return Err(format!("unknown primitive {}", ty)),
    })
}

pub fn enc_text(v: &Val, form: &str) -> Result<String, String> {
    let e = |x: Error| x.to_string();
    match v {
        Val::Bn(x) => if form == "hex" { x.to_hex().map_err(e) } else { x.to_dec().map_err(e) },
        Val::Sc(x) => x.to_string().map_err(e),
        Val::G1(x) => x.to_string().map_err(e),
        Val::G2(x) => x.to_string().map_err(e),
        Val::G2I(x) => x.to_string().map_err(e),
        Val::Pair(x) => x.to_string().map_err(e),
    }
}

pub fn enc_bytes(v: &Val) -> Result<Vec<u8>, String> {
    let e = |x: Error| x.to_string();
    match v {
        Val::Bn(x) => x.to_bytes().map_err(e),
        Val::Sc(x) => x.to_bytes().map_err(e),
        Val::G1(x) => x.to_bytes().map_err(e),
        Val::G2(x) => x.to_bytes().map_err(e),
        Val::G2I(x) => x.to_bytes().map_err(e),
        Val::Pair(x) => x.to_bytes().map_err(e),
    }
}

pub fn val_inf(v: &Val) -> Option<bool> {
    match v {
        Val::G1(x) => x.is_inf().ok(),
        Val::G2(x) => x.is_inf().ok(),
        Val::G2I(x) => x.is_inf().ok(),
        Val::Pair(x) => x.is_unity().ok(),
        _ => None,
    }
}

/// input of a decode case: text as is, bytes as lower-case hex
pub fn input_bytes(form: &str, input: &str) -> Option<Vec<u8>> {
    if form == "bytes" {
        unhex(input)
    } else {
        None
    }
}

fn decode_any(ty: &str, form: &str, input: &str) -> Result<Val, String> {
    if form == "bytes" {
        dec_bytes(ty, &unhex(input).ok_or("bad hex in case")?)
    } else {
        dec_text(ty, form, input)
    }
}

fn encode_any(v: &Val, form: &str) -> Result<String, String> {
    if form == "bytes" {
        enc_bytes(v).map(|b| hex(&b))
    } else {
        enc_text(v, form)
    }
}

/// decode one primitive under the watchdog; observable: status, re-encoding in the same form,
/// canonical bytes, whether the re-encoding decodes to an equal value
pub fn decode_case(ty: &str, form: &str, input: &str, ms: u64) -> Value {
    let (t, f, i) = (ty.to_string(), form.to_string(), input.to_string());
    let r = with_timeout(ms, move || guard(|| decode_any(&t, &f, &i)));
    let v = match r {
        None => return json!({"status": "hang"}),
        Some(Out::Ok(v)) => v,
        Some(o) => return json!({"status": o.tag(), "msg": o.msg().chars().take(120).collect::<String>()}),
    };
    let mut out = json!({"status": "ok"});
    let form_s = form.to_string();
    let v2 = v.clone();
    let enc = with_timeout(ms, move || guard(|| encode_any(&v2, &form_s)));
    match enc {
        Some(Out::Ok(c)) => {
            // the accepted value must re-encode to something that decodes to the same value
            let (t, f, c2) = (ty.to_string(), form.to_string(), c.clone());
            let re = with_timeout(ms, move || guard(|| decode_any(&t, &f, &c2)));
            out["canon"] = json!(c);
            match re {
                Some(Out::Ok(w)) => {
                    out["re_status"] = json!("ok");
                    out["re_equal"] = json!(w == v);
                    let f = form.to_string();
                    let c3 = guard(|| encode_any(&w, &f)).ok();
                    out["re_stable"] = json!(c3.as_deref() == Some(&c));
                }
                Some(o) => out["re_status"] = json!(o.tag()),
                None => out["re_status"] = json!("hang"),
            }
        }
        Some(o) => out["canon_status"] = json!(o.tag()),
        None => out["canon_status"] = json!("hang"),
    }
    let v3 = v.clone();
    if let Some(Out::Ok(b)) = with_timeout(ms, move || guard(|| enc_bytes(&v3))) {
        out["bytes"] = json!(hex(&b));
    }
    if let Some(b) = val_inf(&v) {
        out["inf"] = json!(b);
    }
    out
}

// ------------------------------------------------------------------ serde helpers

pub fn to_json_doc<T: Serialize>(v: &T) -> Out<Value> {
    guard(|| serde_json::to_string(v).and_then(|s| serde_json::from_str::<Value>(&s)))
}

pub fn mp_tree(b: &[u8]) -> Out<Value> {
    guard(|| rmp_serde::from_slice::<Value>(b))
}

/// sort the set-typed arrays of a delta document (HashSet iteration order is not part of the
/// document): arrays of numbers that are not 128-byte point encodings
pub fn canon_doc(ty: &str, v: &Value) -> Value {
    fn walk(v: &Value) -> Value {
        match v {
            Value::Array(a) => {
                let all_num = !a.is_empty() && a.iter().all(|x| x.is_u64());
                let mut b: Vec<Value> = a.iter().map(walk).collect();
                if all_num && a.len() != 128 {
                    b.sort_by_key(|x| x.as_u64().unwrap_or(0));
                }
                Value::Array(b)
            }
            Value::Object(m) => Value::Object(m.iter().map(|(k, x)| (k.clone(), walk(x))).collect()),
            _ => v.clone(),
        }
    }
    if ty == "RevocationRegistryDelta" {
        walk(v)
    } else {
        v.clone()
    }
}

/// One serialised object of one public type, with the verdicts of the direct oracles.
pub struct Art {
    pub ty: &'static str,
    pub variant: String,
    pub json: Value,
    pub mp: Vec<u8>,
    pub mpn: Vec<u8>,
    pub bin: Value,
    pub failed: Vec<Value>,
    pub checks: u32,
    pub labels: Vec<String>,
}

/// input-class labels that make oracle details specific: negative big numbers, skipped fields
pub fn labels_of(ty: &str, doc: &Value) -> Vec<String> {
    let mut l = vec![];
    fn has_neg(v: &Value) -> bool {
        match v {
            Value::String(s) => s.len() > 1 && s.starts_with('-') && s[1..].bytes().all(|c| c.is_ascii_digit()),
            Value::Array(a) => a.iter().any(has_neg),
            Value::Object(m) => m.values().any(has_neg),
            _ => false,
        }
    }
    fn has_zero_bn(v: &Value) -> bool {
        match v {
            Value::String(s) => s == "0",
            Value::Array(a) => a.iter().any(has_zero_bn),
            Value::Object(m) => m.values().any(has_zero_bn),
            _ => false,
        }
    }
    if has_neg(doc) {
        l.push("negative_bignumber".to_string());
    }
    if has_zero_bn(doc) {
        l.push("zero_bignumber".to_string());
    }
    if ty == "RevocationRegistryDelta" {
        for k in ["prevAccum", "issued", "revoked"] {
            if doc.get(k).is_none() {
                l.push(format!("skipped_field:{}", k));
            }
        }
    }
    fn xlist_m2(v: &Value, l: &mut Vec<String>) {
        match v {
            Value::Object(m) => {
                if m.contains_key("r_prime_prime_prime") && !m.contains_key("m2") {
                    l.push("skipped_field:m2".to_string());
                }
                for x in m.values() {
                    xlist_m2(x, l);
                }
            }
            Value::Array(a) => a.iter().for_each(|x| xlist_m2(x, l)),
            _ => {}
        }
    }
    xlist_m2(doc, &mut l);
    // an identity of E'(Fp2) written as (0 : y : 0) with y != 1 (left behind by point arithmetic):
    // its byte form is not the one `from_bytes` gives back
    fn odd_identity(v: &Value, l: &mut Vec<String>) {
        match v {
            Value::String(s) => {
                let t: Vec<&str> = s.split(' ').collect();
                let canonical = "1 0000000000000000000000000000000000000000000000000000000000000000 1 0000000000000000000000000000000000000000000000000000000000000000 2 095E45DDF417D05FB10933FFC63D474548B7FFFF7888802F07FFFFFF7D07A8A8 1 0000000000000000000000000000000000000000000000000000000000000000 1 0000000000000000000000000000000000000000000000000000000000000000 1 0000000000000000000000000000000000000000000000000000000000000000";
                if t.len() == 12 && s != canonical {
                    if let Ok(p) = vf::PointG2Inf::from_string(s) {
                        if p.is_inf().unwrap_or(false) {
                            l.push("noncanonical_identity".to_string());
                        }
                    }
                }
            }
            Value::Array(a) => a.iter().for_each(|x| odd_identity(x, l)),
            Value::Object(m) => m.values().for_each(|x| odd_identity(x, l)),
            _ => {}
        }
    }
    odd_identity(doc, &mut l);
    fn delta_inside(v: &Value, l: &mut Vec<String>) {
        if let Value::Object(m) = v {
            for x in m.values() {
                delta_inside(x, l);
            }
        }
    }
    delta_inside(doc, &mut l);
    l.sort();
    l.dedup();
    l
}

/// the direct oracles of C15 on one object: JSON and MessagePack (compact and named) round
/// trips with equality on the decoded value and document equality on re-serialisation
pub fn probe<T: Serialize + DeserializeOwned>(ty: &'static str, variant: &str, v: &T, eq: &dyn Fn(&T, &T) -> bool) -> Art {
    let mut failed = vec![];
    let mut checks = 0u32;
    let json_doc = to_json_doc(v);
    let doc = json_doc.clone().ok().unwrap_or(Value::Null);
    let labels = labels_of(ty, &doc);
    let ctx = format!("type={} variant={} backend={} class={:?}", ty, variant, backend_str(), labels);
    let mut fail = |name: &str, what: String| failed.push(json!({"name": name, "detail": format!("{}: {}", ctx, what)}));
    // ---- (a) JSON
    checks += 1;
    match guard(|| serde_json::to_string(v)) {
        Out::Ok(s) => match guard(|| serde_json::from_str::<T>(&s)) {
            Out::Ok(w) => {
                if !eq(&w, v) {
                    fail("json_roundtrip", "decoded value differs from the original".into());
                }
                checks += 1;
                match to_json_doc(&w) {
                    Out::Ok(d2) => {
                        if canon_doc(ty, &d2) != canon_doc(ty, &doc) {
                            fail("json_reserialize", "re-serialised document differs".into());
                        }
                    }
                    o => fail("json_reserialize", format!("re-serialisation {} {}", o.tag(), o.msg())),
                }
            }
            o => fail("json_roundtrip", format!("own JSON output does not decode: {} {}", o.tag(), o.msg())),
        },
        o => fail("json_roundtrip", format!("serialisation {} {}", o.tag(), o.msg())),
    }
    // ---- (b) MessagePack, compact (structs as arrays: what rmp_serde::to_vec writes) and named
    let mut mp = vec![];
    let mut mpn = vec![];
    let mut bin = Value::Null;
    for named in [false, true] {
        let (oname_rt, oname_re) = if named { ("msgpack_named_roundtrip", "msgpack_named_reserialize") } else { ("msgpack_roundtrip", "msgpack_reserialize") };
        let enc = |x: &T| if named { rmp_serde::to_vec_named(x) } else { rmp_serde::to_vec(x) };
        checks += 1;
        match guard(|| enc(v)) {
            Out::Ok(b) => {
                match guard(|| rmp_serde::from_slice::<T>(&b)) {
                    Out::Ok(w) => {
                        if !eq(&w, v) {
                            fail(oname_rt, "decoded value differs from the original".into());
                        }
                        checks += 1;
                        match guard(|| enc(&w)) {
                            Out::Ok(b2) => {
                                let same = b2 == b || match (mp_tree(&b).ok(), mp_tree(&b2).ok()) {
                                    (Some(t1), Some(t2)) => canon_doc(ty, &t1) == canon_doc(ty, &t2),
                                    _ => false,
                                };
                                if !same {
                                    fail(oname_re, "re-serialised document differs".into());
                                }
                            }
                            o => fail(oname_re, format!("re-serialisation {} {}", o.tag(), o.msg())),
                        }
                    }
                    o => fail(oname_rt, format!("own MessagePack output does not decode: {} {}", o.tag(), o.msg().chars().take(160).collect::<String>())),
                }
                if named {
                    bin = mp_tree(&b).ok().unwrap_or(Value::Null);
                    mpn = b;
                } else {
                    mp = b;
                }
            }
            o => fail(oname_rt, format!("serialisation {} {}", o.tag(), o.msg())),
        }
    }
    Art { ty, variant: variant.to_string(), json: doc, mp, mpn, bin, failed, checks, labels }
}

pub fn probe_eq<T: Serialize + DeserializeOwned + PartialEq>(ty: &'static str, variant: &str, v: &T) -> Art {
    probe(ty, variant, v, &|a: &T, b: &T| a == b)
}

/// sub-object of a document, decoded as `T` (inner types have crate-private fields)
pub fn sub<T: DeserializeOwned>(doc: &Value) -> Result<T, String> {
    serde_json::from_value::<T>(doc.clone()).map_err(|e| e.to_string())
}

include!("ser_flow.rs");
include!("ser_dec.rs");
include!("ser_golden.rs");

// ------------------------------------------------------------------ entry points

pub fn gen(stream: &str, thorough: bool, rng: &mut Rng) -> Option<Result<(), String>> {
    match stream {
        "ser" => Some(gen_ser(thorough, rng)),
        "dec" => Some(gen_dec(thorough, rng)),
        _ => None,
    }
}

/// `clh exec` ops of this area: `codec_decode` (one primitive decode on the real code)
pub fn exec(op: &str, inp: &Value) -> Option<Result<Value, String>> {
    match op {
        "codec_decode" => {
            let ty = inp["type"].as_str().unwrap_or("");
            let form = inp["form"].as_str().unwrap_or("text");
            let input = inp["input"].as_str().unwrap_or("");
            Some(Ok(decode_case(ty, form, input, 3000)))
        }
        "codec_samples" => Some(samples(inp)),
        _ => None,
    }
}
