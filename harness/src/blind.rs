//! C12: blinding values — requested sizes (record-only tape), exact ranges, freshness,
//! top-bit reachability, no shared fields between proofs, no secret on the wire, refusal to
//! reveal non-schema attributes.
use crate::fixtures::*;
use crate::pres::{big_value, dec_of_hex, int_value, Pool, PredSpec, ReqSpec};
use crate::rng::Rng;
use crate::util::*;
use anoncreds_clsignatures::verif as vf;
use anoncreds_clsignatures::*;
use serde_json::{json, Value};
use std::collections::{BTreeMap, BTreeSet};

fn sizes(tape: &[vf::TapeEntry]) -> Vec<usize> {
    let mut v: Vec<usize> = tape.iter().filter(|t| t.0 == "bn_rand").map(|t| t.1).collect();
    v.sort();
    v
}

fn leaves(v: &Value, path: &str, out: &mut Vec<(String, String)>) {
    match v {
        Value::String(s) => out.push((path.to_string(), s.clone())),
        Value::Array(a) => {
            // byte arrays (c_list entries) are compared as a whole
            if !a.is_empty() && a.iter().all(|x| x.is_u64()) {
                out.push((path.to_string(), serde_json::to_string(v).unwrap()));
            } else {
                for (i, x) in a.iter().enumerate() { leaves(x, &format!("{}/{}", path, i), out); }
            }
        }
        Value::Object(m) => for (k, x) in m { leaves(x, &format!("{}/{}", path, k), out); },
        _ => {}
    }
}

fn bits_of(dec: &str) -> (bool, usize) {
    match bn::BigNumber::from_dec(dec) {
        Ok(b) => (b.is_negative(), b.num_bits().unwrap_or(0) as usize),
        Err(_) => (true, 0),
    }
}

fn gen_blind(thorough: bool, rng: &mut Rng) -> Result<(), String> {
    let e = |x: Error| x.to_string();
    let pool = Pool::load()?;
    let names: Vec<String> = pool.defs.iter().map(|(n, _)| n.clone()).collect();
    let n = if thorough { 150 } else { 14 };
    let mut all_values: BTreeMap<String, String> = BTreeMap::new(); // value -> where
    let mut maxbits: BTreeMap<usize, (usize, usize)> = BTreeMap::new(); // size -> (max bits, count)
    let mut global_oracles: Vec<Value> = vec![];
    let mut note = |tape: &[vf::TapeEntry], whr: &str, oracles: &mut Vec<Value>, all_values: &mut BTreeMap<String, String>, maxbits: &mut BTreeMap<usize, (usize, usize)>| {
        for t in tape {
            // v'' is a function of the bn_rand draw recorded just before it: not a fresh draw
            if t.2.is_empty() || t.0 == "generate_v_prime_prime" { continue; }
            if let Some(prev) = all_values.get(&t.2) {
                oracles.push(json!({"name":"fresh_randomness","ok":false,"detail":format!("{} draw of {} bits in {} repeats a value drawn in {}", t.0, t.1, whr, prev)}));
            }
            all_values.insert(t.2.clone(), whr.to_string());
            if t.0 == "bn_rand" {
                let (neg, b) = bits_of(&t.2);
                if neg || b > t.1 {
                    oracles.push(json!({"name":"draw_in_range","ok":false,"detail":format!("bn_rand({}) in {} returned a {}-bit value", t.1, whr, b)}));
                }
                let e = maxbits.entry(t.1).or_insert((0, 0));
                e.0 = e.0.max(b);
                e.1 += 1;
                // the eight lowest bits of every draw (keys 900000 + position: (ones, draws))
                let low = bn::BigNumber::from_dec(&t.2).ok().and_then(|x| x.to_bytes().ok()).and_then(|v| v.last().cloned()).unwrap_or(0);
                for pos in 0..8usize {
                    let e = maxbits.entry(900000 + pos).or_insert((0, 0));
                    e.0 += ((low >> pos) & 1) as usize;
                    e.1 += 1;
                }
            }
        }
    };
    for k in 0..n {
        // the first two sessions use the definition with a second hidden non-schema attribute
        let name = if k < 2 && names.contains(&"pqr_norev".to_string()) { "pqr_norev".to_string() } else { rng.pick(&names).clone() };
        let cd = pool.get(&name);
        let mut oracles: Vec<Value> = vec![];
        // link secret
        vf::tape_start();
        let ls = Prover::new_link_secret().map_err(e)?;
        let t = vf::tape_take();
        note(&t, "new_link_secret", &mut oracles, &mut all_values, &mut maxbits);
        emit(&json!({"id": format!("blind/{}/link", k), "op": "draws", "in": {"kind": "link_secret"}, "impl": {"sizes": sizes(&t), "oracles": []}, "class": {"kind":"link_secret"}}));
        let link = ls.value().map_err(e)?.to_dec().map_err(e)?;
        // values
        let mut kb = Issuer::new_credential_values_builder().map_err(e)?;
        let mut known: BTreeMap<String, String> = BTreeMap::new();
        for a in &cd.attrs {
            let v = if rng.chance(1, 2) { int_value(rng).to_string() } else { big_value(rng) };
            kb.add_dec_known(a, &v).map_err(e)?;
            known.insert(a.clone(), v);
        }
        let known_vals = kb.finalize().map_err(e)?;
        let mut hb = Issuer::new_credential_values_builder().map_err(e)?;
        let mut hidden: BTreeMap<String, String> = BTreeMap::new();
        for a in &cd.non_attrs {
            // other hidden non-schema attributes are small in every other session: a predicate on them
            // would be computable, so only the request check keeps them out of predicates
            let v = if a == "master_secret" { link.clone() } else if k % 2 == 0 { format!("{}", rng.range(1, 100000)) } else { dec_of_hex(&rng.hex_bits(200)) };
            hb.add_dec_hidden(a, &v).map_err(e)?;
            hidden.insert(a.clone(), v);
        }
        let hidden_vals = hb.finalize().map_err(e)?;
        // blind
        vf::tape_start();
        let nonce = new_nonce().map_err(e)?;
        let tn = vf::tape_take();
        note(&tn, "new_nonce", &mut oracles, &mut all_values, &mut maxbits);
        emit(&json!({"id": format!("blind/{}/nonce", k), "op": "draws", "in": {"kind": "nonce"}, "impl": {"sizes": sizes(&tn), "oracles": []}, "class": {"kind":"nonce"}}));
        vf::tape_start();
        let (blinded, factors, bproof) = Prover::blind_credential_secrets(&cd.pk, &cd.kcp, &hidden_vals, &nonce).map_err(e)?;
        let tb = vf::tape_take();
        note(&tb, "blind_credential_secrets", &mut oracles, &mut all_values, &mut maxbits);
        emit(&json!({"id": format!("blind/{}/blind", k), "op": "draws", "in": {"kind": "blind", "n_hidden": cd.non_attrs.len(), "n_commit": 0},
            "impl": {"sizes": sizes(&tb), "oracles": []}, "class": {"kind":"blind"}}));
        // sign
        let inonce = new_nonce().map_err(e)?;
        vf::tape_start();
        let (mut sig, sproof) = Issuer::sign_credential("prover", &blinded, &bproof, &nonce, &inonce, &known_vals, &cd.pk, &cd.sk).map_err(e)?;
        let ts = vf::tape_take();
        note(&ts, "sign_credential", &mut oracles, &mut all_values, &mut maxbits);
        let prime_req: Vec<usize> = ts.iter().filter(|t| t.0 == "generate_prime_in_range").map(|t| t.1).collect();
        let vpp_rec = ts.iter().filter(|t| t.0 == "generate_v_prime_prime").count();
        let range_draws = ts.iter().filter(|t| t.0 == "bn_rand_range").count();
        emit(&json!({"id": format!("blind/{}/sign", k), "op": "draws", "in": {"kind": "sign"},
            "impl": {"sizes": sizes(&ts), "prime_requests": prime_req, "vpp_draws": vpp_rec, "range_draws": range_draws, "oracles": []}, "class": {"kind":"sign"}}));
        let raw_sig = jv(&sig);
        let all = known_vals.merge(&hidden_vals).map_err(e)?;
        Prover::process_credential_signature(&mut sig, &all, &sproof, &factors, &cd.pk, &inonce, None, None, None).map_err(e)?;
        // proofs: two from the same credential and request
        let revealed: Vec<String> = cd.attrs.iter().filter(|_| rng.chance(1, 3)).cloned().collect();
        let mut preds = vec![];
        for a in &cd.attrs {
            if !revealed.contains(a) && rng.chance(1, 3) {
                if let Ok(v) = known[a].parse::<i64>() {
                    if v > i32::MIN as i64 && v <= i32::MAX as i64 { preds.push(PredSpec { attr: a.clone(), ptype: "GE".into(), value: (v - 1) as i32 }); }
                }
            }
        }
        let req = ReqSpec { revealed: revealed.clone(), predicates: preds.clone() };
        let mut proofs: Vec<Value> = vec![];
        for rep in 0..2 {
            let mut pb = Prover::new_proof_builder().map_err(e)?;
            vf::tape_start();
            pb.add_common_attribute("master_secret").map_err(e)?;
            let tc = vf::tape_take();
            note(&tc, "add_common_attribute", &mut oracles, &mut all_values, &mut maxbits);
            vf::tape_start();
            pb.add_sub_proof_request(&req.build()?, &cd.schema, &cd.non_schema, &sig, &all, &cd.pk, None, None).map_err(e)?;
            let tp = vf::tape_take();
            note(&tp, "add_sub_proof_request", &mut oracles, &mut all_values, &mut maxbits);
            let n_unrevealed = cd.attrs.len() + cd.non_attrs.len() - revealed.len();
            if rep == 0 {
                emit(&json!({"id": format!("blind/{}/common", k), "op": "draws", "in": {"kind": "common"}, "impl": {"sizes": sizes(&tc), "oracles": []}, "class": {"kind":"common"}}));
                emit(&json!({"id": format!("blind/{}/subproof", k), "op": "draws", "in": {"kind": "subproof", "n_fresh": n_unrevealed - 1, "n_pred": preds.len()},
                    "impl": {"sizes": sizes(&tp), "oracles": []}, "class": {"kind":"subproof", "npred": preds.len()}}));
            }
            let pnonce = new_nonce().map_err(e)?;
            let proof = pb.finalize(&pnonce).map_err(e)?;
            let pj = jv(&proof);
            // recoverable blinders: exact range
            let c = bn::BigNumber::from_dec(pj["aggregated_proof"]["c_hash"].as_str().unwrap_or("0")).map_err(e)?;
            let eqp = &pj["proofs"][0]["primary_proof"]["eq_proof"];
            let sigj = jv(&sig);
            let e_sig = bn::BigNumber::from_dec(sigj["p_credential"]["e"].as_str().unwrap_or("0")).map_err(e)?;
            let two596 = bn::BigNumber::from_u32(2).unwrap().exp(&bn::BigNumber::from_u32(596).unwrap()).map_err(e)?;
            let mut rec = |name: &str, hat: &str, secret: &bn::BigNumber, bits: usize, oracles: &mut Vec<Value>| {
                if let Ok(h) = bn::BigNumber::from_dec(hat) {
                    if let Ok(t) = h.sub(&c.mul(secret).unwrap()) {
                        let b = t.num_bits().unwrap_or(0) as usize;
                        if t.is_negative() || b > bits {
                            oracles.push(json!({"name":"blinder_in_range","ok":false,"detail":format!("recovered blinder of {} has {} bits (negative: {}), prescribed {}", name, b, t.is_negative(), bits)}));
                        }
                        let e = maxbits.entry(bits + 100000).or_insert((0, 0));
                        let _ = e;
                    }
                }
            };
            rec("e", eqp["e"].as_str().unwrap_or("0"), &e_sig.sub(&two596).map_err(e)?, 456, &mut oracles);
            rec("m2", eqp["m2"].as_str().unwrap_or("0"), &bn::BigNumber::from_dec(sigj["p_credential"]["m_2"].as_str().unwrap_or("0")).map_err(e)?, 2432, &mut oracles);
            if let Some(m) = eqp["m"].as_object() {
                for (a, hat) in m {
                    let secret = known.get(a).or_else(|| hidden.get(a)).cloned().unwrap_or("0".into());
                    rec(&format!("m[{}]", a), hat.as_str().unwrap_or("0"), &bn::BigNumber::from_dec(&secret).map_err(e)?, 592, &mut oracles);
                }
            }
            // no secret on the wire
            let mut secrets: Vec<(String, String)> = vec![("link secret".into(), link.clone())];
            for (a, v) in &hidden { secrets.push((format!("hidden attribute {}", a), v.clone())); }
            for (a, v) in &known { if !revealed.contains(a) && v.len() > 6 { secrets.push((format!("unrevealed attribute {}", a), v.clone())); } }
            for f in ["a", "e", "v"] { secrets.push((format!("signature {}", f), sigj["p_credential"][f].as_str().unwrap_or("").to_string())); }
            secrets.push(("blinding factor v'".into(), jv(&factors)["v_prime"].as_str().unwrap_or("").to_string()));
            secrets.push(("issuer v''".into(), raw_sig["p_credential"]["v"].as_str().unwrap_or("").to_string()));
            let mut wire = vec![];
            leaves(&pj, "proof", &mut wire);
            leaves(&jv(&blinded), "blinded_secrets", &mut wire);
            leaves(&jv(&bproof), "blinded_secrets_proof", &mut wire);
            for (sname, sval) in &secrets {
                if sval.is_empty() { continue; }
                for (p, w) in &wire {
                    if w == sval {
                        oracles.push(json!({"name":"no_secret_on_wire","ok":false,"detail":format!("{} appears in clear at {}", sname, p)}));
                    }
                }
            }
            proofs.push(pj);
        }
        // two proofs share nothing but revealed values and predicates
        let (mut l0, mut l1) = (vec![], vec![]);
        leaves(&proofs[0], "", &mut l0);
        leaves(&proofs[1], "", &mut l1);
        let s1: BTreeSet<&String> = l1.iter().filter(|(p, _)| !p.contains("revealed_attrs") && !p.contains("/predicate/")).map(|(_, v)| v).collect();
        for (p, v) in l0.iter().filter(|(p, _)| !p.contains("revealed_attrs") && !p.contains("/predicate/")) {
            if s1.contains(v) {
                oracles.push(json!({"name":"proofs_unlinkable","ok":false,"detail":format!("two proofs from one credential share the value of {} ", p)}));
            }
        }
        // refusal to reveal / use in predicates a non-schema attribute
        for a in &cd.non_attrs {
            for (what, rq) in [("revealed", ReqSpec { revealed: vec![a.clone()], predicates: vec![] }),
                               ("predicate", ReqSpec { revealed: vec![], predicates: vec![PredSpec { attr: a.clone(), ptype: "GE".into(), value: 0 }] }),
                               ("predicate LE", ReqSpec { revealed: vec![], predicates: vec![PredSpec { attr: a.clone(), ptype: "LE".into(), value: i32::MAX }] })] {
                let r = guard(|| {
                    let mut pb = Prover::new_proof_builder()?;
                    pb.add_sub_proof_request(&rq.build().map_err(|e| Error::new(ErrorKind::InvalidState, e))?, &cd.schema, &cd.non_schema, &sig, &all, &cd.pk, None, None)
                });
                if r.is_ok() {
                    oracles.push(json!({"name":"prover_refuses_hidden_reveal","ok":false,"detail":format!("prover accepted a request naming the non-schema attribute '{}' as {}", a, what)}));
                }
            }
        }
        emit(&json!({"id": format!("blind/{}/oracles", k), "op": "blind_oracles", "in": {}, "impl": {"oracles": oracles}, "class": {"kind": "session", "def": name}}));
    }
    // ---- two credentials, a declared common attribute that one sub-request REVEALS and the other hides: the sub-proof that
    //      reveals it must carry no response for it (a response would publish the shared blinder: m-hat - c*revealed),
    //      and in every sub-proof the keys of eq_proof.m are exactly the hidden attributes
    {
        let mut oracles: Vec<Value> = vec![];
        let nm = if thorough { 6 } else { 2 };
        for k in 0..nm {
            let link = dec_of_hex(&rng.hex_bits(255));
            let mut creds = vec![];
            for dname in ["gvt_rev", "pqr_norev"] {
                let cd = pool.get(dname);
                let mut kb = Issuer::new_credential_values_builder().map_err(e)?;
                for a in &cd.attrs { kb.add_dec_known(a, &format!("{}", rng.range(1, 1000000))).map_err(e)?; }
                let known_vals = kb.finalize().map_err(e)?;
                let mut hb = Issuer::new_credential_values_builder().map_err(e)?;
                for a in &cd.non_attrs { hb.add_dec_hidden(a, &if a == "master_secret" { link.clone() } else { dec_of_hex(&rng.hex_bits(200)) }).map_err(e)?; }
                let hidden_vals = hb.finalize().map_err(e)?;
                let nonce = new_nonce().map_err(e)?;
                let (blinded, factors, bproof) = Prover::blind_credential_secrets(&cd.pk, &cd.kcp, &hidden_vals, &nonce).map_err(e)?;
                let inonce = new_nonce().map_err(e)?;
                let (mut sig, sproof) = Issuer::sign_credential("prover", &blinded, &bproof, &nonce, &inonce, &known_vals, &cd.pk, &cd.sk).map_err(e)?;
                let all = known_vals.merge(&hidden_vals).map_err(e)?;
                Prover::process_credential_signature(&mut sig, &all, &sproof, &factors, &cd.pk, &inonce, None, None, None).map_err(e)?;
                creds.push((dname, sig, all));
            }
            let reveal_first = k % 2 == 0;
            let mut pb = Prover::new_proof_builder().map_err(e)?;
            pb.add_common_attribute("master_secret").map_err(e)?;
            pb.add_common_attribute("name").map_err(e)?;
            let mut hidden_sets: Vec<BTreeSet<String>> = vec![];
            let mut built = true;
            for (i, (dname, sig, all)) in creds.iter().enumerate() {
                let cd = pool.get(dname);
                let reveals = (i == 0) == reveal_first;
                let req = ReqSpec { revealed: if reveals { vec!["name".to_string()] } else { vec![] }, predicates: vec![] };
                let mut hs: BTreeSet<String> = cd.attrs.iter().chain(cd.non_attrs.iter()).cloned().collect();
                if reveals { hs.remove("name"); }
                hidden_sets.push(hs);
                if pb.add_sub_proof_request(&req.build()?, &cd.schema, &cd.non_schema, sig, all, &cd.pk, None, None).is_err() { built = false; }
            }
            if !built { continue; }   // a prover that refuses such a request leaks nothing
            if let Ok(proof) = pb.finalize(&new_nonce().map_err(e)?) {
                let pj = jv(&proof);
                for (i, hs) in hidden_sets.iter().enumerate() {
                    let keys: BTreeSet<String> = pj["proofs"][i]["primary_proof"]["eq_proof"]["m"].as_object().map(|m| m.keys().cloned().collect()).unwrap_or_default();
                    if &keys != hs {
                        let extra: Vec<&String> = keys.difference(hs).collect();
                        let missing: Vec<&String> = hs.difference(&keys).collect();
                        oracles.push(json!({"name":"no_secret_on_wire","ok":false,"detail":format!(
                            "sub-proof {} of a two-credential proof (common attribute 'name' revealed in one sub-proof, hidden in the other): eq_proof.m has responses for {:?} beyond the hidden attributes (missing {:?}); a response for a revealed common attribute publishes the blinder shared with the other sub-proof",
                            i, extra, missing)}));
                    }
                }
            }
        }
        emit(&json!({"id": "blind/multi-common", "op": "blind_oracles", "in": {}, "impl": {"oracles": oracles}, "class": {"kind": "multi_common"}}));
    }
    // population statistics: the prescribed top bit is reached
    for (size, (mx, cnt)) in maxbits.iter() {
        // max of n uniform draws below 2^size stays below 2^(size-d) with probability 2^-(n*d): alarm at 2^-40 and less
        if *size >= 900000 {
            // a bit that is the same in every draw: probability 2^-(n-1) for uniform draws
            if *cnt >= 41 && (*mx == 0 || *mx == *cnt) {
                global_oracles.push(json!({"name":"low_bits_vary","ok":false,"detail":format!("bit {} of all {} bn_rand draws is {} (probability 2^-{} for uniform draws)", size - 900000, cnt, if *mx == 0 { 0 } else { 1 }, cnt - 1)}));
            }
            continue;
        }
        let (sz, what) = if *size < 100000 { (*size, "draws of bn_rand") } else { (*size - 100000, "blinders recovered from responses, prescribed size") };
        if *mx < sz && (sz - *mx) * *cnt >= 40 {
            global_oracles.push(json!({"name":"top_bit_reached","ok":false,"detail":format!("{} {}({}) never exceeded {} bits (probability 2^-{} for uniform draws)", cnt, what, sz, mx, (sz - *mx) * *cnt)}));
        }
    }
    emit(&json!({"id": "blind/population", "op": "blind_oracles", "in": {}, "impl": {"oracles": global_oracles,
        "population": maxbits.iter().filter(|(s, _)| **s < 100000).map(|(s, (m, c))| json!({"size": s, "max_bits": m, "draws": c})).collect::<Vec<_>>()},
        "class": {"kind": "population"}}));
    Ok(())
}

pub fn gen(stream: &str, thorough: bool, rng: &mut Rng) -> Option<Result<(), String>> {
    match stream {
        "blind" => Some(gen_blind(thorough, rng)),
        _ => None,
    }
}
