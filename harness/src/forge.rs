//! adversarial provers (C02, C03): the model prover run by a cheating holder (driver op `forge`),
//! the real verifier judges.  Every document must be rejected; `honest` controls must be accepted.
//! Also: presentations with fewer sub-proofs than the verifier has requests (no model prover needed).
use crate::fixtures::*;
use crate::pres::*;
use crate::reg::mode_str;
use crate::rng::Rng;
use crate::util::*;
use anoncreds_clsignatures::*;
use serde_json::{json, Value};
use std::collections::BTreeMap;

fn draw(rng: &mut Rng, bits: usize) -> String { dec_of_hex(&rng.hex_bits(bits)) }

/// exactly `bits` bits (top bit set)
fn draw_exact(rng: &mut Rng, bits: usize) -> String {
    let mut h = rng.hex_bits(bits - 1);
    // prepend the top bit: 2^(bits-1) + x with x < 2^(bits-1)
    let nd = (bits - 1 + 3) / 4;            // hex digits holding bits-1 bits
    while h.len() < nd { h.insert(0, '0'); }
    let top_in_digit = (bits - 1) % 4;      // position of the new top bit inside an extra/first digit
    if top_in_digit == 0 {
        h.insert(0, '1');
    } else {
        let d = u8::from_str_radix(&h[0..1], 16).unwrap_or(0) | (1 << top_in_digit);
        h.replace_range(0..1, &format!("{:x}", d));
    }
    dec_of_hex(&h)
}

fn ptapes(rng: &mut Rng, n: usize) -> Vec<Value> {
    let mut out = vec![];
    for _ in 0..n {
        let mut r = BTreeMap::new();
        let mut ut = BTreeMap::new();
        let mut rt = BTreeMap::new();
        for i in 0..4 {
            r.insert(i.to_string(), draw(rng, 2128));
            ut.insert(i.to_string(), draw(rng, 592));
            rt.insert(i.to_string(), draw(rng, 672));
        }
        r.insert("DELTA".to_string(), draw(rng, 2128));
        rt.insert("DELTA".to_string(), draw(rng, 672));
        out.push(json!({"r": r, "u_tilde": ut, "r_tilde": rt, "alpha_tilde": draw(rng, 2787)}));
    }
    out
}

fn holds(p: &PredSpec, v: i64) -> bool {
    let t = p.value as i64;
    match p.ptype.as_str() { "GE" => v >= t, "GT" => v > t, "LE" => v <= t, _ => v < t }
}

fn case(id: String, cd_name: &str, cd: &CredDef, sig: Value, vals: &BTreeMap<String, String>, req: &ReqSpec, e_bits: usize,
        cheat: Value, expect_accept: bool, class: Value, rng: &mut Rng) -> Value {
    case_mt(id, cd_name, cd, sig, vals, req, e_bits, cheat, expect_accept, class, rng, None)
}

#[allow(clippy::too_many_arguments)]
fn case_mt(id: String, cd_name: &str, cd: &CredDef, sig: Value, vals: &BTreeMap<String, String>, req: &ReqSpec, e_bits: usize,
        cheat: Value, expect_accept: bool, class: Value, rng: &mut Rng, fixed_mt: Option<(&str, &str)>) -> Value {
    let mut m_tilde = BTreeMap::new();
    for a in cd.attrs.iter().chain(cd.non_attrs.iter()) {
        if !req.revealed.contains(a) && a != "master_secret" {
            m_tilde.insert(a.clone(), draw(rng, 592));
        }
    }
    if let Some((a, v)) = fixed_mt { m_tilde.insert(a.to_string(), v.to_string()); }
    let common: BTreeMap<String, String> = [("master_secret".to_string(), draw(rng, 592))].into_iter().collect();
    let nonce = new_nonce().ok().and_then(|n| n.to_dec().ok()).unwrap_or_default();
    let e_tilde = if e_bits == 456 { draw(rng, 456) } else { draw_exact(rng, e_bits) };
    json!({"id": id, "op": "forge",
        "in": {"backend": backend_str(), "mode": mode_str(), "pk": jv(&cd.pk)["p_key"], "sig": sig,
               "values": vals, "schema": cd.attrs, "non_schema": cd.non_attrs, "req": req.to_json(), "common": common,
               "tape": {"r": draw(rng, 2128), "e_tilde": e_tilde, "v_tilde": draw(rng, 3060), "m_tilde": m_tilde,
                        "m2_tilde": draw(rng, 2432), "preds": ptapes(rng, req.predicates.len())},
               "nonce": nonce, "cheat": cheat},
        "impl": {"exec": {"op": "verify_proof", "in": {"def": cd_name, "req": req.to_json(), "common": ["master_secret"], "nonce": nonce}},
                 "expect_accept": expect_accept},
        "class": class})
}

pub fn gen_forge(thorough: bool, rng: &mut Rng) -> Result<(), String> {
    let pool = Pool::load()?;
    let names: Vec<String> = pool.defs.iter().map(|(n, _)| n.clone()).collect();
    let rounds = if thorough { 12 } else { 2 };
    let mut k = 0;
    for round in 0..rounds {
        for name in &names {
            let cd = pool.get(name);
            // ---- (a) no credential at all: unit exponent, any claimed values
            let mut vals: BTreeMap<String, String> = BTreeMap::new();
            for a in &cd.attrs { vals.insert(a.clone(), rng.range(18, 100000).to_string()); }
            for a in &cd.non_attrs { vals.insert(a.clone(), "0".to_string()); }
            let claimed_age: i64 = vals["age"].parse().unwrap_or(0);
            let req_plain = ReqSpec { revealed: vec![cd.attrs[0].clone()], predicates: vec![] };
            let req_pred = ReqSpec { revealed: vec![], predicates: vec![PredSpec { attr: "age".into(), ptype: "GE".into(), value: (claimed_age - rng.range(0, 17)) as i32 }] };
            // mask sizes: prescribed (response negative, ~852 bits), just below the size at which the
            // response turns positive, and beyond it (response positive, over-long)
            let sizes: Vec<usize> = if round == 0 { vec![456, 457, 600, 851, 854, 860, 1000, 2048] } else { vec![456, 853 + rng.below(40) as usize, 900 + rng.below(2000) as usize] };
            for (ri, req) in [&req_plain, &req_pred].into_iter().enumerate() {
                for &bits in &sizes {
                    if ri == 1 && bits != 456 && bits != 860 && round == 0 { continue; }
                    emit(&case(format!("forge/{}/unit_e/{}/{}", k, ri, bits), name, cd, Value::Null, &vals, req, bits,
                        json!({"kind": "unit_e", "m2": draw(rng, 200)}), false,
                        json!({"kind": "unit_e", "e_tilde_bits": bits, "npred": req.predicates.len(), "def": name}), rng));
                }
            }
            // ---- (b) a real credential; one predicate proven about a made-up value (unlinked response)
            let link = dec_of_hex(&rng.hex_bits(255));
            let mut h = hold(&pool, name, &link, rng)?;
            let age: i64 = rng.range(-1000, 1000);
            h.known.insert("age".into(), age.to_string());
            h.cred = issue(cd, &h.known, &h.hidden, "p", None)?;
            let mut hv: BTreeMap<String, String> = h.known.clone();
            for (a, v) in &h.hidden { hv.insert(a.clone(), v.clone()); }
            let sig = jv(&h.cred.sig)["p_credential"].clone();
            let truthy = PredSpec { attr: "age".into(), ptype: "GE".into(), value: (age - rng.range(0, 50)) as i32 };
            let falsy = PredSpec { attr: "age".into(), ptype: (*rng.pick(&["GE", "GT"])).into(), value: (age + 1 + rng.range(0, 50)) as i32 };
            let falsy2 = PredSpec { attr: "age".into(), ptype: (*rng.pick(&["LE", "LT"])).into(), value: (age - 1 - rng.range(0, 50)) as i32 };
            let made_up = |p: &PredSpec, rng: &mut Rng| -> i64 {
                if p.ptype == "GE" || p.ptype == "GT" { p.value as i64 + 1 + rng.range(0, 30) } else { p.value as i64 - 1 - rng.range(0, 30) }
            };
            let layouts: Vec<(Vec<PredSpec>, usize)> = vec![
                (vec![falsy.clone()], 0),
                (vec![falsy.clone(), truthy.clone()], 0),       // the cheated one first, an honest one on the same attribute last
                (vec![truthy.clone(), falsy2.clone()], 1),
                (vec![truthy.clone(), falsy.clone(), truthy.clone()], 1),
                (vec![falsy2.clone(), falsy.clone(), truthy.clone()], 0),
            ];
            for (li, (preds, ci)) in layouts.into_iter().enumerate() {
                let req = ReqSpec { revealed: vec![], predicates: preds.clone() };
                // every non-cheated predicate must be true of the real value, else the model prover refuses
                if preds.iter().enumerate().any(|(i, p)| i != ci && !holds(p, age)) {
                    // make the others provable as well by cheating is not what this layout is for
                    if li != 4 { continue; }
                }
                if li == 4 { continue; }
                let v = made_up(&preds[ci], rng);
                debug_assert!(holds(&preds[ci], v) && !holds(&preds[ci], age));
                emit(&case(format!("forge/{}/unlinked/{}", k, li), name, cd, sig.clone(), &hv, &req, 456,
                    json!({"kind": "unlinked", "pred_index": ci, "value": v, "m_tilde": draw(rng, 592)}), false,
                    json!({"kind": "unlinked", "layout": li, "npred": preds.len(), "def": name}), rng));
            }
            // ---- (b2) the predicate proven about the NEGATED value with the negated mask: its response is exactly
            //      minus the equality proof's response (only a sign-aware comparison tells them apart)
            {
                let link = dec_of_hex(&rng.hex_bits(255));
                let mut hn = hold(&pool, name, &link, rng)?;
                let agep: i64 = rng.range(10, 1000);
                hn.known.insert("age".into(), agep.to_string());
                hn.cred = issue(cd, &hn.known, &hn.hidden, "p", None)?;
                let mut hvn: BTreeMap<String, String> = hn.known.clone();
                for (a, v) in &hn.hidden { hvn.insert(a.clone(), v.clone()); }
                let sign = jv(&hn.cred.sig)["p_credential"].clone();
                let falsy_le = PredSpec { attr: "age".into(), ptype: "LE".into(), value: (agep - 1 - rng.range(0, 5)) as i32 };
                let mt = draw(rng, 592);
                let req = ReqSpec { revealed: vec![], predicates: vec![falsy_le] };
                emit(&case_mt(format!("forge/{}/negated", k), name, cd, sign, &hvn, &req, 456,
                    json!({"kind": "unlinked", "pred_index": 0, "value": -agep, "m_tilde": format!("-{}", mt)}), false,
                    json!({"kind": "unlinked", "layout": "negated value and mask", "npred": 1, "def": name}), rng, Some(("age", &mt))));
            }
            // ---- (b3) a repeated predicate proof standing in for a missing one: the true predicate proven, sent twice
            {
                let req = ReqSpec { revealed: vec![], predicates: vec![truthy.clone(), falsy.clone()] };
                // BTreeSet order of the verifier's request does not matter: both sub-proofs carry the same predicate
                let mut first_true = req.clone();
                first_true.predicates = vec![truthy.clone(), falsy.clone()];
                emit(&case(format!("forge/{}/duplicate", k), name, cd, sig.clone(), &hv, &first_true, 456,
                    json!({"kind": "duplicate_predicate"}), false,
                    json!({"kind": "duplicate_predicate", "npred": 2, "def": name}), rng));
            }
            // ---- (b5) a predicate on an attribute that the SAME sub-proof reveals: the equality proof has no response for a
            //      revealed attribute, so the cheater adds one (eq_proof.m[attr] := mj) and proves the false predicate about a
            //      made-up value; nothing in the verification equation involves that entry
            {
                let req = ReqSpec { revealed: vec!["age".to_string()], predicates: vec![falsy.clone()] };
                let v = made_up(&falsy, rng);
                emit(&case(format!("forge/{}/revealed_predicate", k), name, cd, sig.clone(), &hv, &req, 456,
                    json!({"kind": "revealed_predicate", "pred_index": 0, "value": v, "m_tilde": draw(rng, 592)}), false,
                    json!({"kind": "unlinked", "layout": "predicate on a revealed attribute, dummy response added", "npred": 1, "def": name}), rng));
            }
            // ---- (b6) a value proven hidden and CLAIMED revealed: the verifier asks to see `name`, the holder proves with it
            //      hidden and writes a made-up value into revealed_attrs, compensating in m[name]; the verifier must take the
            //      hidden exponents from its own request, not from the keys of eq_proof.m
            {
                let attr = cd.attrs[0].clone();
                let prover_req = ReqSpec { revealed: vec![], predicates: vec![] };
                let verifier_req = ReqSpec { revealed: vec![attr.clone()], predicates: vec![] };
                let mut cj = case(format!("forge/{}/fake_revealed", k), name, cd, sig.clone(), &hv, &prover_req, 456,
                    json!({"kind": "fake_revealed", "attr": attr, "fake": draw(rng, 60)}), false,
                    json!({"kind": "fake_revealed", "attr": attr, "def": name}), rng);
                cj["in"]["verifier_req"] = verifier_req.to_json();
                cj["impl"]["exec"]["in"]["req"] = verifier_req.to_json();
                emit(&cj);
            }
            // ---- (b4) a hidden value split into a hidden part and an UNREQUESTED revealed entry: the parts recombine in the
            //      verification equation, only the comparison of the revealed set with the request refuses it
            for (si, attr) in ["master_secret", "age"].iter().enumerate() {
                let req = ReqSpec { revealed: vec![cd.attrs[0].clone()], predicates: vec![] };
                if req.revealed.contains(&attr.to_string()) { continue; }
                emit(&case(format!("forge/{}/split/{}", k, si), name, cd, sig.clone(), &hv, &req, 456,
                    json!({"kind": "split_hidden", "attr": attr, "d": draw(rng, 200)}), false,
                    json!({"kind": "split_hidden", "attr": attr, "def": name}), rng));
            }
            // ---- (a2) no credential, A' = 0 / n: T-hat collapses unless the verifier insists on an inverse
            for which in ["0", "n"] {
                emit(&case(format!("forge/{}/zero_a_prime/{}", k, which), name, cd, Value::Null, &vals, &req_plain, 456,
                    json!({"kind": "zero_a_prime", "which": which}), false,
                    json!({"kind": "zero_a_prime", "which": which, "def": name}), rng));
            }
            // ---- (c) control: the same machinery, honest
            let req = ReqSpec { revealed: vec![cd.attrs[0].clone()], predicates: vec![truthy.clone(), PredSpec { attr: "age".into(), ptype: "LE".into(), value: (age + rng.range(0, 50)) as i32 }] };
            emit(&case(format!("forge/{}/honest", k), name, cd, sig.clone(), &hv, &req, 456, json!({"kind": "honest"}), true,
                json!({"kind": "honest-control", "npred": 2, "def": name}), rng));
            k += 1;
        }
    }
    // ---- (d) fewer sub-proofs than requests: the verifier registers n requests, the proof answers the first k < n
    let n_short = if thorough { 12 } else { 3 };
    for s in 0..n_short {
        let ncred = 2 + (s % 2);
        let link = dec_of_hex(&rng.hex_bits(255));
        let mut held = vec![];
        let mut reqs = vec![];
        for _ in 0..ncred {
            let name = rng.pick(&names).clone();
            let h = hold(&pool, &name, &link, rng)?;
            reqs.push(random_request(&h, rng, true));
            held.push(h);
        }
        let nonce = new_nonce().map_err(|e| e.to_string())?;
        let nonce_dec = nonce.to_dec().map_err(|e| e.to_string())?;
        for answered in 0..ncred {
            // honest proof over the first `answered` requests (0: no sub-proof at all, c_hash = H(nonce))
            let proof_json: Value = if answered == 0 {
                let h = anoncreds_clsignatures::verif::hash_list_to_bignum(&[nonce.to_bytes().map_err(|e| e.to_string())?]);
                let c = match h { Ok(c) => c.to_dec().map_err(|e| e.to_string())?, Err(e) => return Err(e.to_string()) };
                json!({"proofs": [], "aggregated_proof": {"c_hash": c, "c_list": []}})
            } else {
                let mut pb = Prover::new_proof_builder().map_err(|e| e.to_string())?;
                pb.add_common_attribute("master_secret").map_err(|e| e.to_string())?;
                for i in 0..answered {
                    let cd = pool.get(&held[i].cd_name);
                    pb.add_sub_proof_request(&reqs[i].build()?, &cd.schema, &cd.non_schema, &held[i].cred.sig, &held[i].cred.values, &cd.pk, None, None).map_err(|e| e.to_string())?;
                }
                jv(&pb.finalize(&nonce).map_err(|e| e.to_string())?)
            };
            let sc = Scenario { held: std::mem::take(&mut held), reqs: reqs.clone(), common: vec!["master_secret".to_string()], nonce: nonce.try_clone().map_err(|e| e.to_string())? };
            let res: Out<bool> = match from_jv::<Proof>(&proof_json) {
                Ok(p) => verify(&pool, &sc, &p, &nonce),
                Err(e) => Out::Err(format!("decode: {}", e)),
            };
            held = sc.held;
            let mut implj = out_bool_json(&res);
            let mut oracles = vec![];
            if implj["status"] == "ok" && implj["valid"] == true {
                oracles.push(json!({"name": "unanswered_request_rejected", "ok": false,
                    "detail": format!("a proof answering {} of {} sub-proof requests was accepted", answered, ncred)}));
            }
            implj["oracles"] = json!(oracles);
            let creds: Vec<Value> = (0..ncred).map(|i| {
                let cd = pool.get(&held[i].cd_name);
                json!({"pk": jv(&cd.pk)["p_key"], "req": reqs[i].to_json(), "schema": cd.attrs, "non_schema": cd.non_attrs,
                       "has_rkey": false, "has_registry": false, "has_regkey": false})
            }).collect();
            emit(&json!({"id": format!("forge/short/{}/{}of{}", s, answered, ncred), "op": "verify",
                "in": {"backend": backend_str(), "mode": mode_str(), "common": ["master_secret"], "proof": proof_json, "nonce": nonce_dec, "creds": creds},
                "impl": implj,
                "class": {"kind": "short-proof", "answered": answered, "ncred": ncred, "alteration": "unanswered requests"}}));
        }
    }
    Ok(())
}

pub fn gen(stream: &str, thorough: bool, rng: &mut Rng) -> Option<Result<(), String>> {
    match stream {
        "forge" => Some(gen_forge(thorough, rng)),
        _ => None,
    }
}
