//! non-revocation proofs (C10; the pairing-side part of C01/C07): a revocation key with known
//! discrete logarithms lets the exponent-form model recompute every group element.
use crate::fixtures::*;
use crate::pres::{backend_str, cred_json, dec_of_hex, err_msg_s, out_bool_json, PredSpec, ReqSpec};
use crate::reg::{g2p_canon, mode_str};
use crate::rng::Rng;
use crate::util::*;
use anoncreds_clsignatures::verif as vf;
use anoncreds_clsignatures::*;
use serde_json::{json, Value};
use std::collections::{BTreeMap, BTreeSet};

fn scalar(rng: &mut Rng) -> (String, vf::GroupOrderElement) {
    let h = rng.hex_bits(250);
    let mut b = unhex(&format!("{:0>64}", h.to_lowercase())).unwrap();
    if b.len() > 32 { b = b[b.len() - 32..].to_vec(); }
    let e = vf::GroupOrderElement::from_bytes(&b).unwrap();
    (e.to_string().unwrap(), e)
}

pub struct RevDef {
    pub cd: CredDef,
    pub exps: BTreeMap<String, String>, // name -> hex scalar
}

/// credential definition = fixture primary key + a revocation key built from chosen exponents
pub fn custom_rev_def(rng: &mut Rng) -> Result<RevDef, String> {
    let base = load_fixture("gvt_rev")?;
    let e = |x: Error| x.to_string();
    let g1 = vf::PointG1::new_generator().map_err(e)?;
    let g2 = vf::PointG2::new_generator().map_err(e)?;
    let mut exps = BTreeMap::new();
    let mut rk = serde_json::Map::new();
    let mut sc = BTreeMap::new();
    for n in ["h", "h0", "h1", "h2", "htilde", "g"] {
        let (h, s) = scalar(rng);
        rk.insert(n.to_string(), json!(g1.mul(&s).map_err(e)?.to_string().map_err(e)?));
        exps.insert(n.to_string(), h);
        sc.insert(n.to_string(), s);
    }
    for n in ["g_dash", "h_cap", "u"] {
        let (h, s) = scalar(rng);
        rk.insert(n.to_string(), json!(g2.mul(&s).map_err(e)?.to_string().map_err(e)?));
        exps.insert(n.to_string(), h);
        sc.insert(n.to_string(), s);
    }
    let (xh, x) = scalar(rng);
    let (skh, sk) = scalar(rng);
    exps.insert("x".into(), xh.clone());
    exps.insert("sk".into(), skh.clone());
    let pk_exp = sc["g"].mul_mod(&sk).map_err(e)?;
    let y_exp = sc["h_cap"].mul_mod(&x).map_err(e)?;
    rk.insert("pk".into(), json!(g1.mul(&pk_exp).map_err(e)?.to_string().map_err(e)?));
    rk.insert("y".into(), json!(g2.mul(&y_exp).map_err(e)?.to_string().map_err(e)?));
    exps.insert("pk".into(), pk_exp.to_string().map_err(e)?);
    exps.insert("y".into(), y_exp.to_string().map_err(e)?);
    let mut pkj = jv(&base.pk);
    pkj["r_key"] = Value::Object(rk);
    let mut skj = jv(&base.sk);
    skj["r_key"] = json!({"x": xh, "sk": skh});
    let cd = CredDef { pk: from_jv(&pkj)?, sk: from_jv(&skj)?, kcp: base.kcp.try_clone().map_err(e)?, attrs: base.attrs.clone(),
                       non_attrs: base.non_attrs.clone(), schema: base.schema.clone(), non_schema: base.non_schema.clone() };
    Ok(RevDef { cd, exps })
}

struct Holder {
    idx: u32,
    known: BTreeMap<String, String>,
    cred: Credential,
    /// the valid set the current witness corresponds to
    wview: BTreeSet<u32>,
    factors_vr: String,
}

fn g1_bytes(s: &str) -> String {
    vf::PointG1::from_string_inf(s).map(|p| hex(&p.to_bytes().unwrap_or_default())).unwrap_or_default()
}

fn g2_bytes(s: &str) -> String {
    vf::PointG2::from_string_inf(s).map(|p| g2p_canon(&p)).unwrap_or_default()
}

struct ProofOut {
    proof: Value,
    ctape: Vec<String>,
    /// set when the number / freshness of the pairing-side draws is not the prescribed one
    draws_note: Option<String>,
}

fn build_proof(rd: &RevDef, h: &Holder, req: &ReqSpec, reg: Option<&RevocationRegistry>, nonce: &Nonce) -> Result<ProofOut, String> {
    let e = |x: Error| x.to_string();
    let cd = &rd.cd;
    let mut pb = Prover::new_proof_builder().map_err(e)?;
    pb.add_common_attribute("master_secret").map_err(e)?;
    vf::tape_start();
    let r = pb.add_sub_proof_request(&req.build()?, &cd.schema, &cd.non_schema, &h.cred.sig, &h.cred.values, &cd.pk,
                                     reg, if reg.is_some() { h.cred.witness.as_ref() } else { None });
    let tape = vf::tape_take();
    r.map_err(e)?;
    let ctape: Vec<String> = tape.iter().filter(|t| t.0 == "random_mod_order").take(7).map(|t| t.2.clone()).collect();
    // the pairing-side randomisers: 7 blinders of the c-list and 13 masks of the tau-list, each its own draw
    let all: Vec<&String> = tape.iter().filter(|t| t.0 == "random_mod_order").map(|t| &t.2).collect();
    let distinct: BTreeSet<&String> = all.iter().cloned().collect();
    let draws_note = if reg.is_some() && (all.len() != 20 || distinct.len() != all.len()) {
        Some(format!("add_sub_proof_request with a non-revocation part drew {} group-order randomisers ({} distinct), prescribed: 20 fresh ones (7 c-list blinders + 13 tau-list masks)", all.len(), distinct.len()))
    } else { None };
    let proof = pb.finalize(nonce).map_err(e)?;
    Ok(ProofOut { proof: jv(&proof), ctape, draws_note })
}

fn verify_with(rd: &RevDef, req: &ReqSpec, proof: &Value, nonce: &Nonce, rc: Option<&RegCtx>, reg: Option<&RevocationRegistry>) -> Out<bool> {
    let cd = &rd.cd;
    match from_jv::<Proof>(proof) {
        Ok(p) => guard(|| {
            let mut pv = Verifier::new_proof_verifier()?;
            pv.add_common_attribute("master_secret")?;
            let r = req.build().map_err(|e| Error::new(ErrorKind::InvalidState, e))?;
            pv.add_sub_proof_request(&r, &cd.schema, &cd.non_schema, &cd.pk, rc.map(|x| &x.key_pub), reg)?;
            pv.verify(&p, nonce)
        }),
        Err(e) => Out::Err(format!("decode: {}", e)),
    }
}

/// as `verify_with`, the verifier having called `accept_legacy_revocation(true)`
fn verify_with_legacy(rd: &RevDef, req: &ReqSpec, proof: &Value, nonce: &Nonce, rc: &RegCtx, reg: &RevocationRegistry) -> Out<bool> {
    let cd = &rd.cd;
    match from_jv::<Proof>(proof) {
        Ok(p) => guard(|| {
            let mut pv = Verifier::new_proof_verifier()?;
            pv.accept_legacy_revocation(true);
            pv.add_common_attribute("master_secret")?;
            let r = req.build().map_err(|e| Error::new(ErrorKind::InvalidState, e))?;
            pv.add_sub_proof_request(&r, &cd.schema, &cd.non_schema, &cd.pk, Some(&rc.key_pub), Some(reg))?;
            pv.verify(&p, nonce)
        }),
        Err(e) => Out::Err(format!("decode: {}", e)),
    }
}

/// two sub-proof requests, a registry supplied for the FIRST one only
fn verify_first_registry_only(rd: &RevDef, req: &ReqSpec, proof: &Value, nonce: &Nonce, rc: &RegCtx, reg: &RevocationRegistry) -> Out<bool> {
    let cd = &rd.cd;
    match from_jv::<Proof>(proof) {
        Ok(p) => guard(|| {
            let mut pv = Verifier::new_proof_verifier()?;
            pv.add_common_attribute("master_secret")?;
            let r = req.build().map_err(|e| Error::new(ErrorKind::InvalidState, e))?;
            pv.add_sub_proof_request(&r, &cd.schema, &cd.non_schema, &cd.pk, Some(&rc.key_pub), Some(reg))?;
            let r2 = req.build().map_err(|e| Error::new(ErrorKind::InvalidState, e))?;
            pv.add_sub_proof_request(&r2, &cd.schema, &cd.non_schema, &cd.pk, None, None)?;
            pv.verify(&p, nonce)
        }),
        Err(e) => Out::Err(format!("decode: {}", e)),
    }
}

/// one presentation over several credentials of the same definition / registry; `with_nr[i]` says
/// whether sub-proof i carries a non-revocation part.  Returns the proof and the seven blinders per part.
fn build_multi(rd: &RevDef, hs: &[&Holder], req: &ReqSpec, reg: &RevocationRegistry, with_nr: &[bool], nonce: &Nonce) -> Result<(Value, Vec<Vec<String>>), String> {
    let e = |x: Error| x.to_string();
    let cd = &rd.cd;
    let mut pb = Prover::new_proof_builder().map_err(e)?;
    pb.add_common_attribute("master_secret").map_err(e)?;
    let mut tapes = vec![];
    for (h, nr) in hs.iter().zip(with_nr.iter()) {
        vf::tape_start();
        let r = pb.add_sub_proof_request(&req.build()?, &cd.schema, &cd.non_schema, &h.cred.sig, &h.cred.values, &cd.pk,
                                         if *nr { Some(reg) } else { None }, if *nr { h.cred.witness.as_ref() } else { None });
        let tape = vf::tape_take();
        r.map_err(e)?;
        tapes.push(tape.iter().filter(|t| t.0 == "random_mod_order").take(7).map(|t| t.2.clone()).collect::<Vec<String>>());
    }
    let proof = pb.finalize(nonce).map_err(e)?;
    Ok((jv(&proof), tapes))
}

fn verify_multi(rd: &RevDef, req: &ReqSpec, n: usize, proof: &Value, nonce: &Nonce, rc: &RegCtx, reg: &RevocationRegistry) -> Out<bool> {
    let cd = &rd.cd;
    match from_jv::<Proof>(proof) {
        Ok(p) => guard(|| {
            let mut pv = Verifier::new_proof_verifier()?;
            pv.add_common_attribute("master_secret")?;
            for _ in 0..n {
                let r = req.build().map_err(|e| Error::new(ErrorKind::InvalidState, e))?;
                pv.add_sub_proof_request(&r, &cd.schema, &cd.non_schema, &cd.pk, Some(&rc.key_pub), Some(reg))?;
            }
            pv.verify(&p, nonce)
        }),
        Err(e) => Out::Err(format!("decode: {}", e)),
    }
}

fn nr_ctx(rd: &RevDef, rc: &RegCtx, h: &Holder, nrp: &Value, ctape: &[String], verify_valid: &BTreeSet<u32>, verify_reg: &RevocationRegistry) -> Value {
    let rcred = jv(&h.cred.sig)["r_credential"].clone();
    let c = &nrp["c_list"];
    json!({
        "key": rd.exps, "x": rd.exps["x"], "sk": rd.exps["sk"], "gamma": rc.gamma_hex(), "L": rc.l,
        "valid": verify_valid.iter().collect::<Vec<_>>(),
        "cred": {"i": h.idx, "m2": rcred["m2"], "vr2": rcred["vr_prime_prime"], "c": rcred["c"], "witness_valid": h.wview.iter().collect::<Vec<_>>()},
        "ctape": ctape,
        "accum_canon": g2_bytes(jv(verify_reg)["accum"].as_str().unwrap_or("")),
        "z_canon": from_jv::<vf::Pair>(&jv(&rc.key_pub)["z"]).map(|z| hex(&z.to_bytes().unwrap_or_default())).unwrap_or_default(),
        "clist_canon": {"e": g1_bytes(c["e"].as_str().unwrap_or("")), "d": g1_bytes(c["d"].as_str().unwrap_or("")),
            "a": g1_bytes(c["a"].as_str().unwrap_or("")), "g": g1_bytes(c["g"].as_str().unwrap_or("")),
            "w": g2_bytes(c["w"].as_str().unwrap_or("")), "s": g2_bytes(c["s"].as_str().unwrap_or("")), "u": g2_bytes(c["u"].as_str().unwrap_or(""))},
    })
}

#[allow(clippy::too_many_arguments)]
fn emit_multi(id: &str, rd: &RevDef, rc: &RegCtx, req: &ReqSpec, hs: &[&Holder], proof: &Value, tapes: &[Vec<String>], nonce: &Nonce,
              verify_valid: &BTreeSet<u32>, verify_reg: &RevocationRegistry, res: &Out<bool>, expect_accept: bool, kind: &str) {
    let mut creds = vec![];
    for (i, h) in hs.iter().enumerate() {
        let mut cj = cred_json(&rd.cd, req, true, true);
        let nrp = &proof["proofs"][i]["non_revoc_proof"];
        if !nrp.is_null() {
            cj["nr_ctx"] = nr_ctx(rd, rc, h, nrp, &tapes[i], verify_valid, verify_reg);
        }
        creds.push(cj);
    }
    let mut oracles = vec![];
    let accepted = matches!(res, Out::Ok(true));
    if accepted != expect_accept {
        oracles.push(json!({"name": if expect_accept {"valid_holder_accepted"} else {"nonrevoc_enforced"}, "ok": false,
            "detail": format!("{}: verifier {} ({} {}), expected {}", kind, if accepted {"accepts"} else {"rejects"}, res.tag(), res.msg(), if expect_accept {"accept"} else {"reject"})}));
    }
    if matches!(res, Out::Panic(_)) {
        oracles.push(json!({"name":"verify_no_panic","ok":false,"detail":format!("{}: verify panicked: {}", kind, res.msg())}));
    }
    let mut implv = out_bool_json(res);
    implv["oracles"] = json!(oracles);
    emit(&json!({"id": id, "op": "verify",
        "in": {"backend": backend_str(), "mode": mode_str(), "common": ["master_secret"], "creds": creds, "proof": proof,
               "nonce": nonce.to_dec().unwrap_or_default()},
        "impl": implv, "class": {"kind": kind, "ncred": hs.len(), "alteration": if expect_accept {"none"} else {kind}}}));
}

#[allow(clippy::too_many_arguments)]
fn emit_case(id: &str, rd: &RevDef, rc: &RegCtx, req: &ReqSpec, h: &Holder, proof: &Value, ctape: &[String], nonce: &Nonce,
             verify_valid: &BTreeSet<u32>, verify_reg: &RevocationRegistry, res: &Out<bool>, expect_accept: bool, kind: &str,
             clist_exps: Option<Value>) {
    let mut cj = cred_json(&rd.cd, req, true, true);
    let nrp = &proof["proofs"][0]["non_revoc_proof"];
    let rcred = jv(&h.cred.sig)["r_credential"].clone();
    let mut ctx = json!({
        "key": rd.exps, "x": rd.exps["x"], "sk": rd.exps["sk"], "gamma": rc.gamma_hex(), "L": rc.l,
        "valid": verify_valid.iter().collect::<Vec<_>>(),
        "cred": {"i": h.idx, "m2": rcred["m2"], "vr2": rcred["vr_prime_prime"], "c": rcred["c"], "witness_valid": h.wview.iter().collect::<Vec<_>>()},
        "ctape": ctape,
        "accum_canon": g2_bytes(jv(verify_reg)["accum"].as_str().unwrap_or("")),
        "z_canon": from_jv::<vf::Pair>(&jv(&rc.key_pub)["z"]).map(|z| hex(&z.to_bytes().unwrap_or_default())).unwrap_or_default(),
    });
    if !nrp.is_null() {
        let c = &nrp["c_list"];
        ctx["clist_canon"] = json!({"e": g1_bytes(c["e"].as_str().unwrap_or("")), "d": g1_bytes(c["d"].as_str().unwrap_or("")),
            "a": g1_bytes(c["a"].as_str().unwrap_or("")), "g": g1_bytes(c["g"].as_str().unwrap_or("")),
            "w": g2_bytes(c["w"].as_str().unwrap_or("")), "s": g2_bytes(c["s"].as_str().unwrap_or("")), "u": g2_bytes(c["u"].as_str().unwrap_or(""))});
    }
    if let Some(ce) = clist_exps {
        ctx["clist"] = ce;
    }
    if kind.contains("legacy_verifier") {
        ctx["accept_legacy"] = json!(true);
    }
    let _ = h.factors_vr.len();
    if !nrp.is_null() {
        cj["nr_ctx"] = ctx;
    }
    let mut oracles = vec![];
    let accepted = matches!(res, Out::Ok(true));
    if accepted != expect_accept {
        oracles.push(json!({"name": if expect_accept {"valid_holder_accepted"} else {"nonrevoc_enforced"}, "ok": false,
            "detail": format!("{}: verifier {} ({} {}), expected {}", kind, if accepted {"accepts"} else {"rejects"}, res.tag(), res.msg(), if expect_accept {"accept"} else {"reject"})}));
    }
    if matches!(res, Out::Panic(_)) {
        oracles.push(json!({"name":"verify_no_panic","ok":false,"detail":format!("{}: verify panicked: {}", kind, res.msg())}));
    }
    let mut implv = out_bool_json(res);
    implv["oracles"] = json!(oracles);
    emit(&json!({"id": id, "op": "verify",
        "in": {"backend": backend_str(), "mode": mode_str(), "common": ["master_secret"], "creds": [cj], "proof": proof,
               "nonce": nonce.to_dec().unwrap_or_default()},
        "impl": implv, "class": {"kind": kind, "alteration": if kind == "valid_current" {"none"} else {kind}}}));
}

fn gen_nr(thorough: bool, rng: &mut Rng) -> Result<(), String> {
    let e = |x: Error| x.to_string();
    let nruns = if thorough { 12 } else { 2 };
    for run in 0..nruns {
        let rd = custom_rev_def(rng)?;
        let cd = &rd.cd;
        let l = 4 + rng.below(4) as u32;
        let by_default = rng.chance(1, 2);
        let mut rc = RegCtx::new(cd, l, by_default)?;
        let mut valid: BTreeSet<u32> = if by_default { (1..=l).collect() } else { BTreeSet::new() };
        // three holders
        let mut holders: Vec<Holder> = vec![];
        let mut shared_secret = String::new();
        for idx in [1u32, 2, 3] {
            let mut known = BTreeMap::new();
            for a in &cd.attrs {
                known.insert(a.clone(), if a == "age" { format!("{}", 20 + idx) } else { format!("{}", rng.range(0, 100000)) });
            }
            let mut hidden = BTreeMap::new();
            // holders 2 and 3 are one person (same link secret): used for two-credential presentations
            if idx != 3 { shared_secret = dec_of_hex(&rng.hex_bits(250)); }
            hidden.insert("master_secret".to_string(), shared_secret.clone());
            // one prover id for all: sibling credentials differ in the revocation index only (the context m2 must still differ)
            let cred = issue(cd, &known, &hidden, "holder", Some((&mut rc, idx)))?;
            // earlier holders consume the issuance delta (on demand)
            if let Some(d) = &cred.delta {
                for h in holders.iter_mut() {
                    let w: &mut Witness = h.cred.witness.as_mut().unwrap();
                    w.update(h.idx, l, d, &rc.tails).map_err(e)?;
                    h.wview.insert(idx);
                }
            }
            valid.insert(idx);
            let wview = valid.clone();
            holders.push(Holder { idx, known, cred, wview, factors_vr: String::new() });
        }
        // ---- the holder's check of a revocation signature (process_credential_signature with key, registry and
        //      witness): a fourth credential issued step by step; every field of r_credential altered in turn must
        //      be refused (C05: "every field of CredentialSignature")
        {
            let idx4 = 4u32;
            let mut known = BTreeMap::new();
            for a in &cd.attrs { known.insert(a.clone(), format!("{}", rng.range(0, 100000))); }
            let mut hidden = BTreeMap::new();
            hidden.insert("master_secret".to_string(), dec_of_hex(&rng.hex_bits(250)));
            let known_vals = values_of(&known, &BTreeMap::new())?;
            let hidden_vals = values_of(&BTreeMap::new(), &hidden)?;
            let nonce4 = new_nonce().map_err(e)?;
            let (blinded, factors, bproof) = Prover::blind_credential_secrets(&cd.pk, &cd.kcp, &hidden_vals, &nonce4).map_err(e)?;
            let inonce = new_nonce().map_err(e)?;
            let all = known_vals.merge(&hidden_vals).map_err(e)?;
            let (sig, sproof, witness, delta4) = Issuer::sign_credential_with_revoc("holder", &blinded, &bproof, &nonce4, &inonce, &known_vals,
                &cd.pk, &cd.sk, idx4, l, by_default, &mut rc.reg, &rc.key_priv).map_err(e)?;
            if let Some(d) = &delta4 {
                for h in holders.iter_mut() {
                    h.cred.witness.as_mut().unwrap().update(h.idx, l, d, &rc.tails).map_err(e)?;
                    h.wview.insert(idx4);
                }
            }
            valid.insert(idx4);
            let sigj = jv(&sig);
            // control: untouched; its processed form carries vr' + vr''
            let mut s_ctl: CredentialSignature = from_jv(&sigj)?;
            let r_ctl = guard(|| Prover::process_credential_signature(&mut s_ctl, &all, &sproof, &factors, &cd.pk, &inonce, Some(&rc.key_pub), Some(&rc.reg), Some(&witness)));
            let vr2_final = jv(&s_ctl)["r_credential"]["vr_prime_prime"].clone();
            let o_sig = jv(&holders[0].cred.sig)["r_credential"].clone();
            let o_wit = jv(holders[0].cred.witness.as_ref().unwrap());
            let sc = |v: &Value| vf::GroupOrderElement::from_string(v.as_str().unwrap_or(""));
            let one = vf::GroupOrderElement::from_bytes(&[1]).map_err(e)?;
            let vr_prime = sc(&jv(&factors)["vr_prime"]).map_err(e)?;
            let valid4: Vec<u32> = valid.iter().cloned().collect();
            let ctx = json!({
                "key": rd.exps, "x": rd.exps["x"], "sk": rd.exps["sk"], "gamma": rc.gamma_hex(), "L": l, "valid": valid4,
                "cred": {"i": idx4, "m2": sigj["r_credential"]["m2"], "vr2": vr2_final, "c": sigj["r_credential"]["c"], "witness_valid": valid4},
                "other": {"i": holders[0].idx, "m2": o_sig["m2"], "vr2": o_sig["vr_prime_prime"], "c": o_sig["c"],
                          "witness_valid": holders[0].wview.iter().collect::<Vec<_>>()},
            });
            // (name, [(model field, mode)], single value-changing alteration of the signature?)
            let alts: Vec<(&str, Vec<(&str, &str)>, bool)> = vec![
                ("control", vec![], false),
                ("r_credential.g_i from another session", vec![("gI", "other")], true),
                ("r_credential.sigma from another session", vec![("sigma", "other")], true),
                ("witness_signature.sigma_i from another session", vec![("sigmaI", "other")], true),
                ("witness_signature.u_i from another session", vec![("uI", "other")], true),
                ("witness_signature.g_i from another session", vec![("wgI", "other")], true),
                ("r_credential.c+1", vec![("c", "plus1")], true),
                ("r_credential.vr_prime_prime+1", vec![("vr2", "plus1")], true),
                ("r_credential.m2+1", vec![("m2", "plus1")], true),
                ("r_credential.c from another session", vec![("c", "other")], true),
                ("r_credential.m2 from another session", vec![("m2", "other")], true),
                ("r_credential.i+1", vec![("i", "plus1")], true),
                ("witness of another credential", vec![("omega", "other")], false),
                ("g_i and u_i from another session", vec![("gI", "other"), ("uI", "other")], false),
                ("g_i, sigma_i and u_i from another session", vec![("gI", "other"), ("sigmaI", "other"), ("uI", "other")], false),
                ("whole witness_signature from another session", vec![("wgI", "other"), ("sigmaI", "other"), ("uI", "other")], false),
                ("every group element from another session", vec![("gI", "other"), ("sigmaI", "other"), ("uI", "other"), ("wgI", "other"), ("sigma", "other")], false),
                ("everything but witness_signature.g_i from another session (vr'' adjusted for the holder's vr')",
                 vec![("gI", "other"), ("sigmaI", "other"), ("uI", "other"), ("sigma", "other"), ("c", "other"), ("m2", "other"), ("vr2", "other")], false),
            ];
            for (ai, (name, fields, single)) in alts.iter().enumerate() {
                let mut v = sigj.clone();
                let mut wit = jv(&witness);
                let mut skip = false;
                for (f, mode) in fields {
                    let rc_ = &mut v["r_credential"];
                    match (*f, *mode) {
                        ("gI", "other") => rc_["g_i"] = o_sig["g_i"].clone(),
                        ("sigma", "other") => rc_["sigma"] = o_sig["sigma"].clone(),
                        ("sigmaI", "other") => rc_["witness_signature"]["sigma_i"] = o_sig["witness_signature"]["sigma_i"].clone(),
                        ("uI", "other") => rc_["witness_signature"]["u_i"] = o_sig["witness_signature"]["u_i"].clone(),
                        ("wgI", "other") => rc_["witness_signature"]["g_i"] = o_sig["witness_signature"]["g_i"].clone(),
                        ("c", "other") => rc_["c"] = o_sig["c"].clone(),
                        ("m2", "other") => rc_["m2"] = o_sig["m2"].clone(),
                        ("omega", "other") => wit = o_wit.clone(),
                        ("i", "plus1") => rc_["i"] = json!(idx4 + 1),
                        ("vr2", "other") => match sc(&o_sig["vr_prime_prime"]).and_then(|t| t.sub_mod(&vr_prime)).and_then(|t| t.to_string()) {
                            Ok(t) => rc_["vr_prime_prime"] = json!(t), Err(_) => skip = true },
                        (fld, "plus1") => {
                            let k = if fld == "vr2" { "vr_prime_prime" } else { fld };
                            match sc(&rc_[k]).and_then(|t| t.add_mod(&one)).and_then(|t| t.to_string()) {
                                Ok(t) => rc_[k] = json!(t), Err(_) => skip = true }
                        }
                        _ => skip = true,
                    }
                }
                if skip { continue; }
                let r: Out<()> = match (from_jv::<CredentialSignature>(&v), from_jv::<Witness>(&wit)) {
                    (Ok(mut s2), Ok(w2)) => guard(|| Prover::process_credential_signature(&mut s2, &all, &sproof, &factors, &cd.pk, &inonce, Some(&rc.key_pub), Some(&rc.reg), Some(&w2))),
                    (Err(e2), _) | (_, Err(e2)) => Out::Err(format!("decode: {}", e2)),
                };
                let mut oracles = vec![];
                if fields.is_empty() && !r.is_ok() {
                    oracles.push(json!({"name":"holder_accepts_issued","ok":false,"detail":format!("process_credential_signature refused an honest revocation signature: {} {}", r.tag(), r.msg())}));
                }
                if *single && r.is_ok() {
                    oracles.push(json!({"name":"holder_rejects_altered","ok":false,"detail":format!("process_credential_signature (with revocation key, registry and witness) accepted a signature after alteration '{}'", name)}));
                }
                if matches!(r, Out::Panic(_)) {
                    oracles.push(json!({"name":"holder_no_panic","ok":false,"detail":format!("process_credential_signature panicked after alteration '{}': {}", name, r.msg())}));
                }
                let alter: Vec<Value> = fields.iter().map(|(f, m)| json!({"field": f, "mode": m})).collect();
                emit(&json!({"id": format!("nr/{}/holder-nr-check/{}", run, ai), "op": "holder_nr_check",
                    "in": {"ctx": ctx, "alter": alter},
                    "impl": {"status": r.tag(), "accept": r.is_ok(), "oracles": oracles},
                    "class": {"kind": "holder_nr_check", "alteration": name, "single": single, "nfields": fields.len()}}));
            }
            let _ = r_ctl;
        }
        let req = ReqSpec { revealed: vec!["name".into()], predicates: if rng.chance(1, 2) { vec![PredSpec { attr: "age".into(), ptype: "GE".into(), value: 18 }] } else { vec![] } };
        let reg0 = rc.reg.clone();
        let valid0 = valid.clone();
        let nonce = new_nonce().map_err(e)?;
        // proof made before the revocation (state 0)
        let p_h1_s0 = build_proof(&rd, &holders[0], &req, Some(&reg0), &nonce)?;
        let stale_h1 = Holder { idx: holders[0].idx, known: holders[0].known.clone(),
            cred: Credential { sig: holders[0].cred.sig.try_clone().map_err(e)?, values: holders[0].cred.values.try_clone().map_err(e)?,
                               witness: holders[0].cred.witness.clone(), delta: None, rev_idx: Some(1) },
            wview: holders[0].wview.clone(), factors_vr: String::new() };
        // state 0, two credentials of one holder (2 and 3), both with a non-revocation part: accepted;
        // the transcript interleaves the parts per sub-proof (T-values of part i, then primary i)
        {
            let hs = [&holders[1], &holders[2]];
            let (p, tapes) = build_multi(&rd, &hs, &req, &reg0, &[true, true], &nonce)?;
            let r = verify_multi(&rd, &req, 2, &p, &nonce, &rc, &reg0);
            emit_multi(&format!("nr/{}/two-valid-s0", run), &rd, &rc, &req, &hs, &p, &tapes, &nonce, &valid0, &reg0, &r, true, "valid_current");
            // the first part only (the second sub-proof has no part although a registry is supplied): rejected
            let (p, tapes) = build_multi(&rd, &hs, &req, &reg0, &[true, false], &nonce)?;
            let r = verify_multi(&rd, &req, 2, &p, &nonce, &rc, &reg0);
            emit_multi(&format!("nr/{}/two-s0-second-omitted", run), &rd, &rc, &req, &hs, &p, &tapes, &nonce, &valid0, &reg0, &r, false, "omitted_in_one_of_two");
        }
        // state 0: everybody valid
        {
            let r = verify_with(&rd, &req, &p_h1_s0.proof, &nonce, Some(&rc), Some(&reg0));
            emit_case(&format!("nr/{}/valid-s0", run), &rd, &rc, &req, &holders[0], &p_h1_s0.proof, &p_h1_s0.ctape, &nonce, &valid0, &reg0, &r, true, "valid_current", None);
        }
        // revoke holder 2 -> state 1; holders 1 and 3 update
        let d = Issuer::revoke_credential(&mut rc.reg, l, 2, &cd.pk, &rc.key_priv).map_err(e)?;
        valid.remove(&2);
        for h in holders.iter_mut() {
            if h.idx != 2 {
                h.cred.witness.as_mut().unwrap().update(h.idx, l, &d, &rc.tails).map_err(e)?;
                h.wview.remove(&2);
            }
        }
        let reg1 = rc.reg.clone();
        let valid1 = valid.clone();
        // (a) valid holder, current witness, same state
        for hi in [0usize, 2] {
            let p = build_proof(&rd, &holders[hi], &req, Some(&reg1), &nonce)?;
            let r = verify_with(&rd, &req, &p.proof, &nonce, Some(&rc), Some(&reg1));
            emit_case(&format!("nr/{}/valid-s1-h{}", run, hi), &rd, &rc, &req, &holders[hi], &p.proof, &p.ctape, &nonce, &valid1, &reg1, &r, true, "valid_current", None);
            if let Some(note) = &p.draws_note {
                emit(&json!({"id": format!("nr/{}/draws-h{}", run, hi), "op": "blind_oracles", "in": {}, "impl": {"oracles": [{"name": "fresh_randomness", "ok": false, "detail": note}]}, "class": {"kind": "nr_draws"}}));
            } else {
                emit(&json!({"id": format!("nr/{}/draws-h{}", run, hi), "op": "blind_oracles", "in": {}, "impl": {"oracles": []}, "class": {"kind": "nr_draws"}}));
            }
            if hi == 0 {
                // (g) altered x-list scalars and c-list entries
                for f in ["rho", "r", "r_prime", "r_prime_prime", "r_prime_prime_prime", "o", "o_prime", "m", "m_prime", "t", "t_prime", "s", "c"] {
                    if !thorough && !rng.chance(1, 3) { continue; }
                    let mut p2 = p.proof.clone();
                    let cur = p2["proofs"][0]["non_revoc_proof"]["x_list"][f].as_str().unwrap_or("").to_string();
                    let s = vf::GroupOrderElement::from_string(&cur).map_err(e)?;
                    let one = vf::GroupOrderElement::from_bytes(&[1]).map_err(e)?;
                    p2["proofs"][0]["non_revoc_proof"]["x_list"][f] = json!(s.add_mod(&one).map_err(e)?.to_string().map_err(e)?);
                    let r2 = verify_with(&rd, &req, &p2, &nonce, Some(&rc), Some(&reg1));
                    emit_case(&format!("nr/{}/xlist-{}", run, f), &rd, &rc, &req, &holders[hi], &p2, &p.ctape, &nonce, &valid1, &reg1, &r2, false, "altered_x_list", None);
                }
                // verified against the other state (0) although made for state 1
                let r3 = verify_with(&rd, &req, &p.proof, &nonce, Some(&rc), Some(&reg0));
                emit_case(&format!("nr/{}/other-state", run), &rd, &rc, &req, &holders[hi], &p.proof, &p.ctape, &nonce, &valid0, &reg0, &r3, false, "other_registry_state", None);
            }
        }
        // (r) reference prover for the non-revocation part: the MODEL proves (primary part by Model/Prover.lean, pairing
        //     side in exponent form, randomness drawn here), the library verifies. m2~ also negative and zero: a prover
        //     drawing masks from a signed range is legitimate, the verifier has to reduce m2-hat with the right sign
        {
            let h = &holders[0];
            let mut vals: BTreeMap<String, String> = BTreeMap::new();
            if let Some(av) = jv(&h.cred.values)["attrs_values"].as_object() {
                for (k, v) in av {
                    let inner = v.as_object().and_then(|o| o.values().next()).cloned().unwrap_or(Value::Null);
                    let dec = inner["value"].as_str().or_else(|| inner.as_str()).unwrap_or("").to_string();
                    vals.insert(k.clone(), dec);
                }
            }
            let draw = |rng: &mut Rng, bits: usize| dec_of_hex(&rng.hex_bits(bits));
            let rcred = jv(&h.cred.sig)["r_credential"].clone();
            let kinds = ["positive m2~", "negative m2~", "m2~ = 0", "m2~ = -1", "short masks"];
            for (k, kind) in kinds.iter().enumerate() {
                if !thorough && k >= 3 && run > 0 { continue; }
                let rq = if k % 2 == 0 { req.clone() } else { ReqSpec { revealed: vec![], predicates: vec![PredSpec { attr: "age".into(), ptype: "GE".into(), value: 18 }, PredSpec { attr: "height".into(), ptype: "LT".into(), value: 100000 }] } };
                let mut m_tilde = BTreeMap::new();
                for a in cd.attrs.iter().chain(cd.non_attrs.iter()) {
                    if !rq.revealed.contains(a) && a != "master_secret" { m_tilde.insert(a.clone(), draw(rng, if k == 4 { 64 } else { 592 })); }
                }
                let common: BTreeMap<String, String> = [("master_secret".to_string(), draw(rng, 592))].into_iter().collect();
                let mut ptapes = vec![];
                for _ in &rq.predicates {
                    let (mut r, mut ut, mut rt) = (BTreeMap::new(), BTreeMap::new(), BTreeMap::new());
                    for i in 0..4 {
                        r.insert(i.to_string(), draw(rng, 2128));
                        ut.insert(i.to_string(), draw(rng, 592));
                        rt.insert(i.to_string(), draw(rng, 672));
                    }
                    r.insert("DELTA".to_string(), draw(rng, 2128));
                    rt.insert("DELTA".to_string(), draw(rng, 672));
                    ptapes.push(json!({"r": r, "u_tilde": ut, "r_tilde": rt, "alpha_tilde": draw(rng, 2787)}));
                }
                let m2t = match k { 0 => draw(rng, 2432), 1 => format!("-{}", draw(rng, 2432)), 2 => "0".to_string(), 3 => "-1".to_string(), _ => draw(rng, 80) };
                let ctape: Vec<String> = (0..7).map(|_| scalar(rng).0).collect();
                let ttape: Vec<String> = (0..13).map(|_| scalar(rng).0).collect();
                let nonce_dec = new_nonce().map_err(e)?.to_dec().unwrap_or_default();
                let ctx = json!({"key": rd.exps, "x": rd.exps["x"], "sk": rd.exps["sk"], "gamma": rc.gamma_hex(), "L": l,
                    "valid": valid1.iter().collect::<Vec<_>>(),
                    "cred": {"i": h.idx, "m2": rcred["m2"], "vr2": rcred["vr_prime_prime"], "c": rcred["c"], "witness_valid": h.wview.iter().collect::<Vec<_>>()}});
                emit(&json!({"id": format!("nr/{}/refprove-nr/{}", run, k), "op": "prove_nr",
                    "in": {"backend": backend_str(), "mode": mode_str(), "pk": jv(&cd.pk)["p_key"], "sig": jv(&h.cred.sig)["p_credential"],
                           "values": vals, "schema": cd.attrs, "non_schema": cd.non_attrs, "req": rq.to_json(), "common": common,
                           "tape": {"r": draw(rng, 2128), "e_tilde": draw(rng, 456), "v_tilde": draw(rng, 3060), "m_tilde": m_tilde, "m2_tilde": m2t, "preds": ptapes},
                           "nonce": nonce_dec, "nr": {"ctx": ctx, "ctape": ctape, "ttape": ttape}},
                    "impl": {"exec": {"op": "verify_proof_nr", "in": {"pk": jv(&cd.pk), "def": "gvt_rev", "rev_key_pub": jv(&rc.key_pub), "rev_reg": jv(&reg1),
                                       "req": rq.to_json(), "common": ["master_secret"], "nonce": nonce_dec}}, "expect_accept": true},
                    "class": {"kind": "reference-prover-nr", "variant": kind, "npred": rq.predicates.len()}}));
            }
        }
        // (a') degenerate key: a G1 generator of the revocation key replaced by the identity, in the text form and in the
        //      byte form a binary format carries (the visitor takes a byte sequence inside JSON too). Either the key is
        //      refused, or two presentations made with it must still share no c-list entry (with htilde = 1 the
        //      "randomised" A = sigma + rho*htilde and G = g_i + r*htilde would be the credential's own values)
        {
            let mut idb = vec![0u8; 128];
            idb[0] = 4;
            idb[64] = 1;
            let id_text = vf::PointG1::new_inf().and_then(|p| p.to_string()).unwrap_or_default();
            for gname in ["htilde", "h", "g"] {
                for (form, val) in [("bytes", json!(idb)), ("text", json!(id_text))] {
                    let mut pkj = jv(&cd.pk);
                    pkj["r_key"][gname] = val;
                    let mut oracles = vec![];
                    let outcome = match guard(|| from_jv::<CredentialPublicKey>(&pkj)) {
                        Out::Ok(pk2) => {
                            let rd2 = RevDef { cd: CredDef { pk: pk2, sk: from_jv(&jv(&cd.sk))?, kcp: from_jv(&jv(&cd.kcp))?, attrs: cd.attrs.clone(), non_attrs: cd.non_attrs.clone(),
                                                             schema: cd.schema.clone(), non_schema: cd.non_schema.clone() }, exps: rd.exps.clone() };
                            match (guard(|| build_proof(&rd2, &holders[0], &req, Some(&reg1), &nonce)),
                                   guard(|| build_proof(&rd2, &holders[0], &req, Some(&reg1), &nonce))) {
                                (Out::Ok(p1), Out::Ok(p2)) => {
                                    let (c1, c2) = (&p1.proof["proofs"][0]["non_revoc_proof"]["c_list"], &p2.proof["proofs"][0]["non_revoc_proof"]["c_list"]);
                                    let same: Vec<&str> = ["e", "d", "a", "g", "w", "s", "u"].iter().cloned().filter(|f| !c1[*f].is_null() && c1[*f] == c2[*f]).collect();
                                    if !same.is_empty() {
                                        oracles.push(json!({"name":"proofs_unlinkable","ok":false,"detail":format!("a revocation key whose generator {} is the identity ({} form) was loaded, and two presentations of one credential made with it share the c-list entries {:?}", gname, form, same)}));
                                    }
                                    "loaded, two proofs built"
                                }
                                _ => "loaded, prover refused",
                            }
                        }
                        Out::Err(_) => "refused",
                        Out::Panic(_) => "panic",
                    };
                    emit(&json!({"id": format!("nr/{}/identity-{}-{}", run, gname, form), "op": "blind_oracles", "in": {}, "impl": {"oracles": oracles, "outcome": outcome},
                        "class": {"kind": "degenerate_key", "generator": gname, "form": form, "outcome": outcome}}));
                }
            }
        }
        // (b) revoked holder with its last witness
        {
            let p = build_proof(&rd, &holders[1], &req, Some(&reg1), &nonce)?;
            let r = verify_with(&rd, &req, &p.proof, &nonce, Some(&rc), Some(&reg1));
            emit_case(&format!("nr/{}/revoked", run), &rd, &rc, &req, &holders[1], &p.proof, &p.ctape, &nonce, &valid1, &reg1, &r, false, "revoked_credential", None);
        }
        // (c) valid holder, stale witness (update skipped)
        {
            let p = build_proof(&rd, &stale_h1, &req, Some(&reg1), &nonce)?;
            let r = verify_with(&rd, &req, &p.proof, &nonce, Some(&rc), Some(&reg1));
            emit_case(&format!("nr/{}/stale", run), &rd, &rc, &req, &stale_h1, &p.proof, &p.ctape, &nonce, &valid1, &reg1, &r, false, "stale_witness", None);
        }
        // (d) proof made before the revocation, verified after it
        {
            let r = verify_with(&rd, &req, &p_h1_s0.proof, &nonce, Some(&rc), Some(&reg1));
            emit_case(&format!("nr/{}/old-proof", run), &rd, &rc, &req, &stale_h1, &p_h1_s0.proof, &p_h1_s0.ctape, &nonce, &valid1, &reg1, &r, false, "proof_from_earlier_state", None);
        }
        // (e) omission: revoked holder leaves the non-revocation part out
        {
            let p = build_proof(&rd, &holders[1], &req, None, &nonce)?;
            let r = verify_with(&rd, &req, &p.proof, &nonce, Some(&rc), Some(&reg1));
            emit_case(&format!("nr/{}/omitted", run), &rd, &rc, &req, &holders[1], &p.proof, &[], &nonce, &valid1, &reg1, &r, false, "omitted_non_revocation_part", None);
            // (f) plain transplant: the valid holder's non-revocation part pasted onto the revoked holder's primary proof
            let donor = build_proof(&rd, &holders[0], &req, Some(&reg1), &nonce)?;
            let mut p2 = p.proof.clone();
            p2["proofs"][0]["non_revoc_proof"] = donor.proof["proofs"][0]["non_revoc_proof"].clone();
            let mut cl = p2["aggregated_proof"]["c_list"].as_array().cloned().unwrap_or_default();
            let donor_cl = donor.proof["aggregated_proof"]["c_list"].as_array().cloned().unwrap_or_default();
            let mut merged: Vec<Value> = donor_cl.iter().take(7).cloned().collect();
            merged.append(&mut cl);
            p2["aggregated_proof"]["c_list"] = json!(merged);
            let r2 = verify_with(&rd, &req, &p2, &nonce, Some(&rc), Some(&reg1));
            emit_case(&format!("nr/{}/transplant", run), &rd, &rc, &req, &holders[0], &p2, &donor.ctape, &nonce, &valid1, &reg1, &r2, false, "transplanted_non_revocation_part", None);
        }
        // (i) two credentials of one holder, the revoked one (2) without its part, the valid one (3) with it
        {
            for (order, wn) in [([1usize, 2usize], [false, true]), ([2usize, 1usize], [true, false])] {
                let hs = [&holders[order[0]], &holders[order[1]]];
                let (p, tapes) = build_multi(&rd, &hs, &req, &reg1, &wn, &nonce)?;
                let r = verify_multi(&rd, &req, 2, &p, &nonce, &rc, &reg1);
                emit_multi(&format!("nr/{}/two-omitted-{}{}", run, order[0], order[1]), &rd, &rc, &req, &hs, &p, &tapes, &nonce, &valid1, &reg1, &r, false, "omitted_in_one_of_two");
            }
        }
        // (i') an honest proof whose Fiat-Shamir challenge has a leading zero byte (c < 2^248, one nonce in 256):
        //      the challenge enters the pairing side as a group-order element and every byte position matters
        //      (seventh seeding round: minimal big-endian bytes padded on the wrong side, consistently in prover
        //      and verifier, so only an independent verifier sees it)
        if run == 0 {
            let lim = bn::BigNumber::from_hex(&format!("1{}", "0".repeat(62))).map_err(e)?;   // 2^248
            let mut found = false;
            for _ in 0..3000 {
                let nz = new_nonce().map_err(e)?;
                let p = build_proof(&rd, &holders[0], &req, Some(&reg1), &nz)?;
                let ch = bn::BigNumber::from_dec(p.proof["aggregated_proof"]["c_hash"].as_str().unwrap_or("")).map_err(e)?;
                if ch < lim {
                    let r = verify_with(&rd, &req, &p.proof, &nz, Some(&rc), Some(&reg1));
                    emit_case(&format!("nr/{}/short-challenge", run), &rd, &rc, &req, &holders[0], &p.proof, &p.ctape, &nz, &valid1, &reg1, &r, true, "challenge_with_leading_zero_byte", None);
                    found = true;
                    break;
                }
            }
            if !found { return Err("nr: no challenge below 2^248 in 3000 proofs".into()); }
        }
        // (j) the legacy field x_list.m2 shown to the DEFAULT verifier (legacy proofs not accepted):
        //     it must be ignored — the part stays linked to the primary proof's response for m2
        {
            // honest proof of a valid holder, field present with an arbitrary value: same verdict as without it
            let p = build_proof(&rd, &holders[0], &req, Some(&reg1), &nonce)?;
            let mut p2 = p.proof.clone();
            p2["proofs"][0]["non_revoc_proof"]["x_list"]["m2"] = json!(scalar(rng).0);
            let r = verify_with(&rd, &req, &p2, &nonce, Some(&rc), Some(&reg1));
            emit_case(&format!("nr/{}/legacy-field-honest", run), &rd, &rc, &req, &holders[0], &p2, &p.ctape, &nonce, &valid1, &reg1, &r, true, "legacy_m2_field_ignored", None);
            // hybrid: primary credential of the revoked holder (2) with the non-revocation credential and
            // witness of the valid holder (1), proven with the ordinary builder; the field carries
            // m2-hat + c_H*(m2_B - m2_A), which would make the part verify if it were used
            let a = &holders[1];
            let b = &holders[0];
            let mut sigj = jv(&a.cred.sig);
            sigj["r_credential"] = jv(&b.cred.sig)["r_credential"].clone();
            let hybrid = Holder { idx: b.idx, known: a.known.clone(),
                cred: Credential { sig: from_jv(&sigj)?, values: a.cred.values.try_clone().map_err(e)?, witness: b.cred.witness.clone(), delta: None, rev_idx: Some(b.idx) },
                wview: b.wview.clone(), factors_vr: String::new() };
            let p = build_proof(&rd, &hybrid, &req, Some(&reg1), &nonce)?;
            let r = verify_with(&rd, &req, &p.proof, &nonce, Some(&rc), Some(&reg1));
            emit_case(&format!("nr/{}/hybrid", run), &rd, &rc, &req, &hybrid, &p.proof, &p.ctape, &nonce, &valid1, &reg1, &r, false, "transplanted_non_revocation_part", None);
            // re-based hybrid (DESIGN 4/C10 (ii), confirmed by a seventh-round seeding agent): (A*Rctxt^-k, e, v) signs
            // the context m2_A + k*e; k is chosen so that the new context is congruent to m2_B modulo the group
            // order, the non-revocation credential and witness are the valid holder's, the ordinary builder proves
            {
                let dec = |v: &Value| bn::BigNumber::from_dec(v.as_str().unwrap_or("")).map_err(e);
                let sa = jv(&a.cred.sig);
                let sb = jv(&b.cred.sig);
                let pkj = jv(&rd.cd.pk);
                let n = dec(&pkj["p_key"]["n"])?;
                let rctxt = dec(&pkj["p_key"]["rctxt"])?;
                let q = bn::BigNumber::from_hex("2523648240000001BA344D8000000007FF9F800000000010A10000000000000D").map_err(e)?;
                let m2_a = dec(&sa["p_credential"]["m_2"])?;
                let m2_b = dec(&sb["p_credential"]["m_2"])?;
                let ee = dec(&sa["p_credential"]["e"])?;
                let aa = dec(&sa["p_credential"]["a"])?;
                let diff = m2_b.add(&q).map_err(e)?.sub(&m2_a.modulus(&q).map_err(e)?).map_err(e)?.modulus(&q).map_err(e)?;
                let k = diff.mod_mul(&ee.modulus(&q).map_err(e)?.inverse(&q).map_err(e)?, &q).map_err(e)?;
                let m2_new = m2_a.add(&k.mul(&ee).map_err(e)?).map_err(e)?;
                let a_new = aa.mod_mul(&rctxt.mod_exp(&k, &n).map_err(e)?.inverse(&n).map_err(e)?, &n).map_err(e)?;
                let mut sj = sa.clone();
                sj["p_credential"]["m_2"] = json!(m2_new.to_dec().map_err(e)?);
                sj["p_credential"]["a"] = json!(a_new.to_dec().map_err(e)?);
                sj["r_credential"] = sb["r_credential"].clone();
                let rebased = Holder { idx: b.idx, known: a.known.clone(),
                    cred: Credential { sig: from_jv(&sj)?, values: a.cred.values.try_clone().map_err(e)?, witness: b.cred.witness.clone(), delta: None, rev_idx: Some(b.idx) },
                    wview: b.wview.clone(), factors_vr: String::new() };
                let pr = build_proof(&rd, &rebased, &req, Some(&reg1), &nonce)?;
                let rr = verify_with(&rd, &req, &pr.proof, &nonce, Some(&rc), Some(&reg1));
                emit_case(&format!("nr/{}/hybrid-rebased", run), &rd, &rc, &req, &rebased, &pr.proof, &pr.ctape, &nonce, &valid1, &reg1, &rr, false, "rebased_context_transplant", None);
            }
            let m2a = vf::GroupOrderElement::from_string(jv(&a.cred.sig)["r_credential"]["m2"].as_str().unwrap_or("")).map_err(e)?;
            let m2b = vf::GroupOrderElement::from_string(jv(&b.cred.sig)["r_credential"]["m2"].as_str().unwrap_or("")).map_err(e)?;
            let ch = bn::BigNumber::from_dec(p.proof["aggregated_proof"]["c_hash"].as_str().unwrap_or("")).map_err(e)?;
            let m2hat = bn::BigNumber::from_dec(p.proof["proofs"][0]["primary_proof"]["eq_proof"]["m2"].as_str().unwrap_or("")).map_err(e)?;
            let chz = vf::bignum_to_group_element_reduce(&ch).map_err(e)?;
            let m2hz = vf::bignum_to_group_element_reduce(&m2hat).map_err(e)?;
            let inj = m2hz.add_mod(&chz.mul_mod(&m2b.sub_mod(&m2a).map_err(e)?).map_err(e)?).map_err(e)?;
            let mut p3 = p.proof.clone();
            p3["proofs"][0]["non_revoc_proof"]["x_list"]["m2"] = json!(inj.to_string().map_err(e)?);
            let r3 = verify_with(&rd, &req, &p3, &nonce, Some(&rc), Some(&reg1));
            emit_case(&format!("nr/{}/hybrid-legacy-m2", run), &rd, &rc, &req, &hybrid, &p3, &p.ctape, &nonce, &valid1, &reg1, &r3, false, "transplanted_with_legacy_m2", None);
        }
        // (k) a verifier that accepts legacy proofs shown an honest CURRENT-format proof (no x_list.m2): accepted,
        //     and the same proof with the legacy field present is then read the legacy way (wrong sign): rejected
        {
            let p = build_proof(&rd, &holders[0], &req, Some(&reg1), &nonce)?;
            let r = verify_with_legacy(&rd, &req, &p.proof, &nonce, &rc, &reg1);
            emit_case(&format!("nr/{}/legacy-verifier-current-proof", run), &rd, &rc, &req, &holders[0], &p.proof, &p.ctape, &nonce, &valid1, &reg1, &r, true, "valid_current legacy_verifier", None);
            let pr = build_proof(&rd, &holders[1], &req, Some(&reg1), &nonce)?;
            let rr = verify_with_legacy(&rd, &req, &pr.proof, &nonce, &rc, &reg1);
            emit_case(&format!("nr/{}/legacy-verifier-revoked", run), &rd, &rc, &req, &holders[1], &pr.proof, &pr.ctape, &nonce, &valid1, &reg1, &rr, false, "revoked_credential legacy_verifier", None);
        }
        // (l) two requests, a registry for the first only: the revoked holder omits the part for the first and attaches
        //     a (valid, but unasked-for) part to the second sub-proof as a decoy: counting parts is not enough
        {
            let hs = [&holders[1], &holders[2]];
            // neither sub-proof is built with a part (nothing of it is hashed); an old part is pasted in afterwards
            let (mut p, tapes) = build_multi(&rd, &hs, &req, &reg1, &[false, false], &nonce)?;
            let donor = build_proof(&rd, &holders[2], &req, Some(&reg1), &nonce)?;
            p["proofs"][1]["non_revoc_proof"] = donor.proof["proofs"][0]["non_revoc_proof"].clone();
            let r = verify_first_registry_only(&rd, &req, &p, &nonce, &rc, &reg1);
            let mut creds = vec![];
            for (i, _h) in hs.iter().enumerate() {
                // verifier's view: registry for the first request only; the model ignores a part nobody asked for
                let cj = cred_json(&rd.cd, &req, i == 0, i == 0);
                creds.push(cj);
            }
            let _ = tapes;
            let mut oracles = vec![];
            if matches!(r, Out::Ok(true)) {
                oracles.push(json!({"name": "nonrevoc_enforced", "ok": false, "detail": "omitted_with_decoy: a proof without the part for the sub-proof that has a registry, and an unasked-for part on another sub-proof, was accepted"}));
            }
            let mut implv = out_bool_json(&r);
            implv["oracles"] = json!(oracles);
            emit(&json!({"id": format!("nr/{}/omitted-with-decoy", run), "op": "verify",
                "in": {"backend": backend_str(), "mode": mode_str(), "common": ["master_secret"], "creds": creds, "proof": p,
                       "nonce": nonce.to_dec().unwrap_or_default()},
                "impl": implv, "class": {"kind": "omitted_with_decoy", "ncred": 2, "alteration": "omitted_with_decoy"}}));
        }
        // (m) the verifier supplies the registry STATE but not the registry key, the revoked holder omits the part: rejected
        //     (revocation was asked for and cannot be checked)
        {
            let p = build_proof(&rd, &holders[1], &req, None, &nonce)?;
            let r: Out<bool> = match from_jv::<Proof>(&p.proof) {
                Ok(pp) => guard(|| {
                    let mut pv = Verifier::new_proof_verifier()?;
                    pv.add_common_attribute("master_secret")?;
                    let rq = req.build().map_err(|e| Error::new(ErrorKind::InvalidState, e))?;
                    pv.add_sub_proof_request(&rq, &rd.cd.schema, &rd.cd.non_schema, &rd.cd.pk, None, Some(&reg1))?;
                    pv.verify(&pp, &nonce)
                }),
                Err(e2) => Out::Err(format!("decode: {}", e2)),
            };
            let cj = cred_json(&rd.cd, &req, true, false);
            let mut oracles = vec![];
            if matches!(r, Out::Ok(true)) {
                oracles.push(json!({"name": "nonrevoc_enforced", "ok": false, "detail": "omitted_registry_without_key: the verifier supplied a registry state (without its key) and a proof without the non-revocation part was accepted"}));
            }
            let mut implv = out_bool_json(&r);
            implv["oracles"] = json!(oracles);
            emit(&json!({"id": format!("nr/{}/omitted-registry-without-key", run), "op": "verify",
                "in": {"backend": backend_str(), "mode": mode_str(), "common": ["master_secret"], "creds": [cj], "proof": p.proof,
                       "nonce": nonce.to_dec().unwrap_or_default()},
                "impl": implv, "class": {"kind": "omitted_registry_without_key", "ncred": 1, "alteration": "omitted_registry_without_key"}}));
        }
        // (h) no registry supplied: the non-revocation part is not checked and the primary part alone decides
        {
            let p = build_proof(&rd, &holders[1], &req, None, &nonce)?;
            let r = verify_with(&rd, &req, &p.proof, &nonce, None, None);
            // only the direct oracle; the model case needs has_registry=false
            if !matches!(r, Out::Ok(true)) {
                emit(&json!({"id": format!("nr/{}/no-registry", run), "op": "pres_refused", "in": {}, "impl": {"status": r.tag(),
                    "oracles": [{"name":"honest_proof_verifies","ok":false,"detail":format!("primary-only proof rejected when no registry is supplied: {}", r.msg())}]}, "class": {"kind":"no_registry"}}));
            }
        }
    }
    Ok(())
}

pub fn gen(stream: &str, thorough: bool, rng: &mut Rng) -> Option<Result<(), String>> {
    match stream {
        "nr" => Some(gen_nr(thorough, rng)),
        _ => None,
    }
}

/// exec: generator^exp in G1 / G2 / GT -> canonical byte encoding (hex)
pub fn exec(op: &str, inp: &Value) -> Option<Result<Value, String>> {
    match op {
        "genpow" => Some((|| {
            let e = |x: Error| x.to_string();
            let mut s = inp["exp"].as_str().unwrap_or("0").to_lowercase();
            if s.len() % 2 == 1 { s.insert(0, '0'); }
            let b = unhex(&s).ok_or("bad hex")?;
            if b.len() > 32 { return Err("scalar too long".into()); }
            let sc = vf::GroupOrderElement::from_bytes(&b).map_err(e)?;
            match inp["group"].as_str().unwrap_or("") {
                "g1" => {
                    let p = if sc.is_zero() { vf::PointG1::new_inf().map_err(e)? } else { vf::PointG1::new_generator().map_err(e)?.mul(&sc).map_err(e)? };
                    Ok(json!(hex(&p.to_bytes().map_err(e)?)))
                }
                "g2" => {
                    let p = vf::PointG2::new_generator().map_err(e)?.mul(&sc).map_err(e)?;
                    Ok(json!(g2p_canon(&p)))
                }
                "gt" => {
                    let base = vf::Pair::pair(&vf::PointG1::new_generator().map_err(e)?, &vf::PointG2::new_generator().map_err(e)?).map_err(e)?;
                    Ok(json!(hex(&base.pow(&sc).map_err(e)?.to_bytes().map_err(e)?)))
                }
                g => Err(format!("bad group {}", g)),
            }
        })()),
        "genpow_text" => Some((|| {
            let e = |x: Error| x.to_string();
            let mut s = inp["exp"].as_str().unwrap_or("0").to_lowercase();
            if s.len() % 2 == 1 { s.insert(0, '0'); }
            let b = unhex(&s).ok_or("bad hex")?;
            if b.len() > 32 { return Err("scalar too long".into()); }
            let sc = vf::GroupOrderElement::from_bytes(&b).map_err(e)?;
            match inp["group"].as_str().unwrap_or("") {
                "g1" => {
                    let p = if sc.is_zero() { vf::PointG1::new_inf().map_err(e)? } else { vf::PointG1::new_generator().map_err(e)?.mul(&sc).map_err(e)? };
                    Ok(json!(p.to_string().map_err(e)?))
                }
                "g2" => Ok(json!(vf::PointG2::new_generator().map_err(e)?.mul(&sc).map_err(e)?.to_string().map_err(e)?)),
                g => Err(format!("bad group {}", g)),
            }
        })()),
        "verify_proof_nr" => Some((|| {
            let cd = load_fixture(inp["def"].as_str().unwrap_or(""))?;
            let pk: CredentialPublicKey = from_jv(&inp["pk"])?;
            let kp: RevocationKeyPublic = from_jv(&inp["rev_key_pub"])?;
            let reg: RevocationRegistry = from_jv(&inp["rev_reg"])?;
            let revealed: Vec<String> = from_jv(&inp["req"]["revealed"])?;
            let predicates: Vec<PredSpec> = inp["req"]["predicates"].as_array().map(|a| a.iter().map(|p| PredSpec {
                attr: p["attr_name"].as_str().unwrap_or("").to_string(), ptype: p["p_type"].as_str().unwrap_or("").to_string(),
                value: p["value"].as_i64().unwrap_or(0) as i32 }).collect()).unwrap_or_default();
            let req = ReqSpec { revealed, predicates };
            let common: Vec<String> = from_jv(&inp["common"])?;
            let nonce = bn::BigNumber::from_dec(inp["nonce"].as_str().unwrap_or("")).map_err(|e| e.to_string())?;
            let res: Out<bool> = match from_jv::<Proof>(&inp["proof"]) {
                Ok(p) => guard(|| {
                    let mut pv = Verifier::new_proof_verifier()?;
                    for a in &common { pv.add_common_attribute(a)?; }
                    pv.add_sub_proof_request(&req.build().map_err(|e| err_msg_s(&e))?, &cd.schema, &cd.non_schema, &pk, Some(&kp), Some(&reg))?;
                    pv.verify(&p, &nonce)
                }),
                Err(e) => Out::Err(format!("decode: {}", e)),
            };
            Ok(out_bool_json(&res))
        })()),
        _ => None,
    }
}
