// included by ser.rs — issuance / registry / presentation flows that produce one object of every
// serialisable public type (and of every layout variant: empty accumulator, deltas with each
// emptiness combination, proofs with / without predicates and non-revocation part, ...)

use crate::fixtures::{load_fixture, CredDef};
use std::collections::{BTreeMap, BTreeSet, HashSet};

macro_rules! put {
    ($arts:expr, $ty:literal, $variant:expr, $v:expr) => {
        $arts.push(probe_eq($ty, &$variant, $v))
    };
}

macro_rules! put_sub {
    ($arts:expr, $ty:literal, $T:ty, $variant:expr, $doc:expr) => {
        match sub::<$T>($doc) {
            Ok(x) => $arts.push(probe_eq($ty, &$variant, &x)),
            Err(e) => return Err(format!("sub-object {} ({}) does not decode: {}", $ty, $variant, e)),
        }
    };
}

fn es(x: Error) -> String {
    x.to_string()
}

pub fn tails_gen_eq(a: &RevocationTailsGenerator, b: &RevocationTailsGenerator) -> bool {
    a.count() == b.count() && match (rmp_serde::to_vec_named(a), rmp_serde::to_vec_named(b)) {
        (Ok(x), Ok(y)) => x == y,
        _ => false,
    }
}

pub struct FlowOpts {
    pub fixture: &'static str,
    pub by_default: bool,
    pub l: u32,
    pub negative: bool,
    pub predicates: bool,
    pub commitment: bool,
}

/// everything a verifier / prover needs to re-use the artefacts of one flow (golden scenario)
#[derive(Default)]
pub struct Scenario {
    pub doc: Value,
}

fn request(revealed: &[&str], preds: &[(&str, &str, i32)]) -> Result<SubProofRequest, String> {
    let mut b = Verifier::new_sub_proof_request_builder().map_err(es)?;
    for a in revealed {
        b.add_revealed_attr(a).map_err(es)?;
    }
    for (a, t, v) in preds {
        b.add_predicate(a, t, *v).map_err(es)?;
    }
    b.finalize().map_err(es)
}

fn request_doc(revealed: &[&str], preds: &[(&str, &str, i32)]) -> Value {
    json!({"revealed_attrs": revealed, "predicates": preds.iter().map(|(a, t, v)| json!({"attr_name": a, "p_type": t, "value": v})).collect::<Vec<_>>()})
}

pub fn prove_one(
    cd: &CredDef, req: &SubProofRequest, sig: &CredentialSignature, values: &CredentialValues, nonce: &Nonce,
    rev: Option<(&RevocationRegistry, &Witness)>,
) -> Result<Proof, String> {
    let mut pb = Prover::new_proof_builder().map_err(es)?;
    pb.add_common_attribute("master_secret").map_err(es)?;
    pb.add_sub_proof_request(req, &cd.schema, &cd.non_schema, sig, values, &cd.pk, rev.map(|r| r.0), rev.map(|r| r.1)).map_err(es)?;
    pb.finalize(nonce).map_err(es)
}

pub fn verify_one(
    cd: &CredDef, req: &SubProofRequest, proof: &Proof, nonce: &Nonce, rev: Option<(&RevocationKeyPublic, &RevocationRegistry)>,
) -> Out<bool> {
    guard(|| {
        let mut pv = Verifier::new_proof_verifier()?;
        pv.add_common_attribute("master_secret")?;
        pv.add_sub_proof_request(req, &cd.schema, &cd.non_schema, &cd.pk, rev.map(|r| r.0), rev.map(|r| r.1))?;
        pv.verify(proof, nonce)
    })
}

fn proof_parts(arts: &mut Vec<Art>, tag: &str, proof: &Proof) -> Result<(), String> {
    let doc = jv(proof);
    put!(arts, "Proof", tag.to_string(), proof);
    put_sub!(arts, "AggregatedProof", AggregatedProof, tag.to_string(), &doc["aggregated_proof"]);
    for (i, sp) in doc["proofs"].as_array().cloned().unwrap_or_default().iter().enumerate() {
        let t = format!("{}#{}", tag, i);
        put_sub!(arts, "SubProof", SubProof, t, sp);
        put_sub!(arts, "PrimaryProof", PrimaryProof, t, &sp["primary_proof"]);
        put_sub!(arts, "PrimaryEqualProof", PrimaryEqualProof, t, &sp["primary_proof"]["eq_proof"]);
        for (j, ne) in sp["primary_proof"]["ge_proofs"].as_array().cloned().unwrap_or_default().iter().enumerate() {
            put_sub!(arts, "PrimaryPredicateInequalityProof", PrimaryPredicateInequalityProof, format!("{}.{}", t, j), ne);
            put_sub!(arts, "Predicate", Predicate, format!("{}.{}", t, j), &ne["predicate"]);
            put_sub!(arts, "PredicateType", PredicateType, format!("{}.{}", t, j), &ne["predicate"]["p_type"]);
        }
        if !sp["non_revoc_proof"].is_null() {
            put_sub!(arts, "NonRevocProof", NonRevocProof, t, &sp["non_revoc_proof"]);
            put_sub!(arts, "NonRevocProofXList", NonRevocProofXList, t, &sp["non_revoc_proof"]["x_list"]);
            put_sub!(arts, "NonRevocProofCList", NonRevocProofCList, t, &sp["non_revoc_proof"]["c_list"]);
        }
    }
    Ok(())
}

/// primitive wrappers (feature `verif`) and big numbers: edge values
fn primitives(arts: &mut Vec<Art>, rng: &mut Rng) -> Result<(), String> {
    for (name, dec) in [("zero", "0".to_string()), ("one", "1".to_string()), ("negative", "-5".to_string()), ("negative_big", format!("-{}", crate::pres::dec_of_hex(&rng.hex_bits(700)))),
        ("b255", "255".into()), ("b256", "256".into()), ("big2048", crate::pres::dec_of_hex(&rng.hex_bits(2048))), ("random", { let k_ = 1 + rng.below(600) as usize; crate::pres::dec_of_hex(&rng.hex_bits(k_)) })] {
        let b = BigNumber::from_dec(&dec).map_err(es)?;
        put!(arts, "BigNumber", name.to_string(), &b);
    }
    let r_minus_1 = "2523648240000001BA344D8000000007FF9F800000000010A10000000000000C";
    for (name, h) in [("zero", "0".to_string()), ("one", "1".to_string()), ("r-1", r_minus_1.to_string()), ("random", rng.hex_bits(250))] {
        let s = vf::GroupOrderElement::from_string(&h).map_err(es)?;
        put!(arts, "GroupOrderElement", name.to_string(), &s);
    }
    let e = vf::GroupOrderElement::from_string(&rng.hex_bits(250)).map_err(es)?;
    let g1 = vf::PointG1::new_generator().map_err(es)?;
    let g2 = vf::PointG2::new_generator().map_err(es)?;
    put!(arts, "PointG1", "generator".to_string(), &g1);
    put!(arts, "PointG1", "random".to_string(), &g1.mul(&e).map_err(es)?);
    put!(arts, "PointG2", "generator".to_string(), &g2);
    put!(arts, "PointG2", "random".to_string(), &g2.mul(&e).map_err(es)?);
    put!(arts, "PointG2Inf", "identity".to_string(), &vf::PointG2Inf::new_inf().map_err(es)?);
    put!(arts, "PointG2Inf", "random".to_string(), &vf::PointG2Inf::from(g2.mul(&e).map_err(es)?));
    let p = vf::Pair::pair(&g1.mul(&e).map_err(es)?, &g2).map_err(es)?;
    put!(arts, "Pair", "random".to_string(), &p);
    put!(arts, "Pair", "unity".to_string(), &vf::Pair::new_unity().map_err(es)?);
    put!(arts, "Pair", "power".to_string(), &p.pow(&e).map_err(es)?);
    Ok(())
}

/// one complete flow; returns the artefacts and the scenario document used by the golden check
pub fn flow(o: &FlowOpts, rng: &mut Rng, arts: &mut Vec<Art>) -> Result<Value, String> {
    let cd = load_fixture(o.fixture)?;
    let tag = |s: &str| format!("{}/{}", o.fixture, s);
    let has_rev = cd.pk.get_revocation_key().is_some();
    // ---- keys
    put!(arts, "CredentialPublicKey", tag(if has_rev { "with_r_key" } else { "no_r_key" }), &cd.pk);
    put!(arts, "CredentialPrivateKey", tag(if has_rev { "with_r_key" } else { "no_r_key" }), &cd.sk);
    put!(arts, "CredentialKeyCorrectnessProof", tag(""), &cd.kcp);
    put!(arts, "CredentialPrimaryPublicKey", tag(""), cd.pk.get_primary_key());
    // the link-secret attribute may carry any name (it comes from the application's non-credential
    // schema): the same key written with `link_secret` instead of `master_secret` must decode and
    // re-encode to the very document (sixth seeding round: a legacy conversion that invented a
    // `master_secret` entry)
    {
        let mut doc = jv(cd.pk.get_primary_key());
        if let Some(r) = doc.get_mut("r").and_then(|r| r.as_object_mut()) {
            if let Some(v) = r.remove("master_secret") {
                r.insert("link_secret".to_string(), v);
            }
        }
        match sub::<CredentialPrimaryPublicKey>(&doc) {
            Ok(x) => {
                let mut a = probe_eq("CredentialPrimaryPublicKey", &tag("link_secret_named"), &x);
                a.checks += 1;
                if jv(&x) != doc {
                    a.failed.push(json!({"name": "json_roundtrip", "detail": format!("type=CredentialPrimaryPublicKey variant={} backend={}: a key whose link-secret generator is named link_secret decodes and re-encodes to a different document (entries of r: {:?})",
                        tag("link_secret_named"), backend_str(), jv(&x)["r"].as_object().map(|o| o.keys().cloned().collect::<Vec<_>>()))}));
                }
                arts.push(a);
            }
            Err(e) => return Err(format!("renamed primary key does not decode: {}", e)),
        }
    }
    let skd = jv(&cd.sk);
    put_sub!(arts, "CredentialPrimaryPrivateKey", CredentialPrimaryPrivateKey, tag(""), &skd["p_key"]);
    if let Some(rk) = cd.pk.get_revocation_key() {
        put!(arts, "CredentialRevocationPublicKey", tag(""), rk);
        put_sub!(arts, "CredentialRevocationPrivateKey", CredentialRevocationPrivateKey, tag(""), &skd["r_key"]);
    }
    // ---- schemas and builders
    put!(arts, "CredentialSchema", tag(""), &cd.schema);
    put!(arts, "NonCredentialSchema", tag(""), &cd.non_schema);
    let mut sb = Issuer::new_credential_schema_builder().map_err(es)?;
    put!(arts, "CredentialSchemaBuilder", tag("empty"), &sb);
    for a in &cd.attrs {
        sb.add_attr(a).map_err(es)?;
    }
    put!(arts, "CredentialSchemaBuilder", tag("filled"), &sb);
    let mut nb = Issuer::new_non_credential_schema_builder().map_err(es)?;
    for a in &cd.non_attrs {
        nb.add_attr(a).map_err(es)?;
    }
    put!(arts, "NonCredentialSchemaBuilder", tag("filled"), &nb);
    put!(arts, "CredentialSchema", tag("empty"), &Issuer::new_credential_schema_builder().map_err(es)?.finalize().map_err(es)?);
    // ---- link secret, values
    let ls = Prover::new_link_secret().map_err(es)?;
    put!(arts, "LinkSecret", tag(""), &ls);
    let mut known: BTreeMap<String, String> = BTreeMap::new();
    for (i, a) in cd.attrs.iter().enumerate() {
        let v = match i % 5 {
            0 => crate::pres::dec_of_hex(&rng.hex_bits(250)),
            1 => if o.negative { format!("-{}", rng.range(1, 1000000)) } else { format!("{}", rng.range(1, 1000000)) },
            2 => format!("{}", rng.range(18, 99)),
            3 => "0".to_string(),
            _ => if o.negative { format!("-{}", crate::pres::dec_of_hex(&rng.hex_bits(300))) } else { crate::pres::dec_of_hex(&rng.hex_bits(300)) },
        };
        known.insert(a.clone(), v);
    }
    // `age` carries the predicates: keep it a small positive integer
    if known.contains_key("age") {
        known.insert("age".into(), format!("{}", rng.range(18, 99)));
    }
    let mut kb = Issuer::new_credential_values_builder().map_err(es)?;
    put!(arts, "CredentialValuesBuilder", tag("empty"), &kb);
    for (k, v) in &known {
        kb.add_dec_known(k, v).map_err(es)?;
    }
    put!(arts, "CredentialValuesBuilder", tag(if o.negative { "known_with_negative" } else { "known" }), &kb);
    let known_vals = kb.finalize().map_err(es)?;
    let mut hb = Prover::new_credential_values_builder().map_err(es)?;
    for a in &cd.non_attrs {
        if a == "master_secret" {
            hb.add_value_hidden(a, ls.as_ref()).map_err(es)?;
        } else {
            hb.add_dec_hidden(a, &crate::pres::dec_of_hex(&rng.hex_bits(200))).map_err(es)?;
        }
    }
    put!(arts, "CredentialValuesBuilder", tag("hidden"), &hb);
    let hidden_vals = hb.finalize().map_err(es)?;
    if o.commitment {
        // side blinding with a committed attribute (not used for the issuance below: a committed
        // attribute is not part of the credential)
        let mut cb = Prover::new_credential_values_builder().map_err(es)?;
        let last = cd.non_attrs.last().cloned().unwrap_or_default();
        for a in &cd.non_attrs {
            if *a == last {
                cb.add_dec_commitment(a, &crate::pres::dec_of_hex(&rng.hex_bits(200)), &crate::pres::dec_of_hex(&rng.hex_bits(300))).map_err(es)?;
            } else {
                cb.add_dec_hidden(a, &crate::pres::dec_of_hex(&rng.hex_bits(200))).map_err(es)?;
            }
        }
        put!(arts, "CredentialValuesBuilder", tag("commitment"), &cb);
        let cvals = cb.finalize().map_err(es)?;
        put!(arts, "CredentialValues", tag("commitment"), &cvals);
        for (k, d) in jv(&cvals)["attrs_values"].as_object().cloned().unwrap_or_default() {
            if d.get("Commitment").is_some() {
                put_sub!(arts, "CredentialValue", CredentialValue, tag(&format!("Commitment:{}", k)), &d);
            }
        }
        let n0 = new_nonce().map_err(es)?;
        let (b0, f0, p0) = Prover::blind_credential_secrets(&cd.pk, &cd.kcp, &cvals, &n0).map_err(es)?;
        put!(arts, "BlindedCredentialSecrets", tag("committed_attributes"), &b0);
        put!(arts, "CredentialSecretsBlindingFactors", tag("committed_attributes"), &f0);
        put!(arts, "BlindedCredentialSecretsCorrectnessProof", tag("committed_attributes"), &p0);
    }
    put!(arts, "CredentialValues", tag(if o.negative { "known_with_negative" } else { "known" }), &known_vals);
    put!(arts, "CredentialValues", tag("hidden"), &hidden_vals);
    put!(arts, "CredentialValues", tag("empty"), &CredentialValues::default());
    let mut hidden_only = Prover::new_credential_values_builder().map_err(es)?;
    for a in &cd.non_attrs {
        if a == "master_secret" {
            hidden_only.add_value_hidden(a, ls.as_ref()).map_err(es)?;
        } else if let Some(CredentialValue::Hidden { value }) = jv(&hidden_vals)["attrs_values"].get(a).and_then(|d| sub::<CredentialValue>(d).ok()) {
            hidden_only.add_value_hidden(a, &value).map_err(es)?;
        }
    }
    let hidden_only = hidden_only.finalize().map_err(es)?;
    let all = known_vals.merge(&hidden_only).map_err(es)?;
    put!(arts, "CredentialValues", tag(if o.negative { "all_with_negative" } else { "all" }), &all);
    for (k, d) in jv(&known_vals.merge(&hidden_vals).map_err(es)?)["attrs_values"].as_object().cloned().unwrap_or_default() {
        let kind = d.as_object().and_then(|m| m.keys().next().cloned()).unwrap_or_default();
        put_sub!(arts, "CredentialValue", CredentialValue, tag(&format!("{}:{}", kind, k)), &d);
    }
    // ---- blinding
    let nonce = new_nonce().map_err(es)?;
    put!(arts, "Nonce", tag("credential_nonce"), &nonce);
    let (blinded, factors, bproof) = Prover::blind_credential_secrets(&cd.pk, &cd.kcp, &hidden_vals, &nonce).map_err(es)?;
    let v = |s: &str| tag(s);
    put!(arts, "BlindedCredentialSecrets", v(if has_rev { "with_ur" } else { "no_ur" }), &blinded);
    put!(arts, "CredentialSecretsBlindingFactors", v(if has_rev { "with_vr_prime" } else { "no_vr_prime" }), &factors);
    put!(arts, "BlindedCredentialSecretsCorrectnessProof", v(""), &bproof);
    let inonce = new_nonce().map_err(es)?;
    let req_rev: Vec<&str> = cd.attrs.iter().filter(|a| *a != "age").take(1).map(|s| s.as_str()).collect();
    let age: i32 = known.get("age").and_then(|s| s.parse().ok()).unwrap_or(0);
    let preds: Vec<(&str, &str, i32)> = if o.predicates && known.contains_key("age") { vec![("age", "GE", 18), ("age", "LT", age + 1), ("age", "LE", age), ("age", "GT", 0)] } else { vec![] };
    let req = request(&req_rev, &preds)?;
    // SubProofRequest is Deserialize-only: the document must decode to what the builder produced
    {
        let d = request_doc(&req_rev, &preds);
        let mut a = Art { ty: "SubProofRequest", variant: tag(if preds.is_empty() { "no_predicates" } else { "predicates" }), json: d.clone(), mp: vec![], mpn: vec![], bin: Value::Null, failed: vec![], checks: 1, labels: vec![] };
        match guard(|| serde_json::from_value::<SubProofRequest>(d.clone())) {
            Out::Ok(r) if r == req => {}
            Out::Ok(_) => a.failed.push(json!({"name": "json_roundtrip", "detail": format!("type=SubProofRequest variant={}: decoded request differs from the builder's", a.variant)})),
            x => a.failed.push(json!({"name": "json_roundtrip", "detail": format!("type=SubProofRequest variant={}: {} {}", a.variant, x.tag(), x.msg())})),
        }
        arts.push(a);
    }
    let pnonce = new_nonce().map_err(es)?;
    put!(arts, "Nonce", tag("proof_nonce"), &pnonce);
    let mut scen = json!({"fixture": o.fixture, "request": request_doc(&req_rev, &preds), "values": jv(&all), "proof_nonce": jv(&pnonce)});

    if !has_rev {
        let (mut sig, sproof) = Issuer::sign_credential("prover-ser", &blinded, &bproof, &nonce, &inonce, &known_vals, &cd.pk, &cd.sk).map_err(es)?;
        put!(arts, "CredentialSignature", tag("no_r_credential/unprocessed"), &sig);
        put!(arts, "SignatureCorrectnessProof", tag(""), &sproof);
        Prover::process_credential_signature(&mut sig, &all, &sproof, &factors, &cd.pk, &inonce, None, None, None).map_err(es)?;
        put!(arts, "CredentialSignature", tag("no_r_credential"), &sig);
        put_sub!(arts, "PrimaryCredentialSignature", PrimaryCredentialSignature, tag(""), &jv(&sig)["p_credential"]);
        let proof = prove_one(&cd, &req, &sig, &all, &pnonce, None)?;
        proof_parts(arts, &tag(if preds.is_empty() { "no_predicates/no_non_revoc" } else { "predicates/no_non_revoc" }), &proof)?;
        let ok = verify_one(&cd, &req, &proof, &pnonce, None);
        if !matches!(ok, Out::Ok(true)) {
            return Err(format!("flow {}: honest proof not accepted: {} {}", o.fixture, ok.tag(), ok.msg()));
        }
        scen["signature"] = jv(&sig);
        scen["proof"] = jv(&proof);
        return Ok(scen);
    }

    // ---- revocation registry
    let l = o.l;
    let (key_pub, key_priv, mut reg, mut tg) = Issuer::new_revocation_registry_def(&cd.pk, l, o.by_default).map_err(es)?;
    let mode = if o.by_default { "by_default" } else { "on_demand" };
    put!(arts, "RevocationKeyPublic", tag(""), &key_pub);
    put!(arts, "RevocationKeyPrivate", tag(""), &key_priv);
    put!(arts, "RevocationRegistry", tag(if o.by_default { "initial_full" } else { "initial_empty_accumulator" }), &reg);
    put!(arts, "Accumulator", tag(if o.by_default { "initial_full" } else { "identity" }), &reg.accum);
    // RevocationTailsGenerator has no PartialEq: compare the binary documents (affine bytes of the
    // points; the text form exposes the projective representation, which a binary round trip normalises)
    let tg_eq = |a: &RevocationTailsGenerator, b: &RevocationTailsGenerator| tails_gen_eq(a, b);
    arts.push(probe("RevocationTailsGenerator", &tag("fresh"), &tg, &tg_eq));
    let mut tails: Vec<Tail> = vec![];
    let mut k = 0u32;
    while let Some(t) = tg.try_next().map_err(es)? {
        if k == 0 || k == 1 || k == l + 1 || k == 2 * l {
            put!(arts, "Tail", tag(&format!("index{}{}", k, if k == l + 1 { "(suppressed=g_dash)" } else { "" })), &t);
        }
        if k == 0 || k == l {
            arts.push(probe("RevocationTailsGenerator", &tag(&format!("after{}", k + 1)), &tg, &tg_eq));
            // a generator restored from its serialised state continues identically
            let mut restored: RevocationTailsGenerator = sub(&jv(&tg))?;
            let mut orig = tg.clone();
            let a = restored.try_next().map_err(es)?.map(|t| jv(&t));
            let b = orig.try_next().map_err(es)?.map(|t| jv(&t));
            if a != b {
                let last = arts.last_mut().unwrap();
                last.failed.push(json!({"name": "json_roundtrip", "detail": format!("type=RevocationTailsGenerator variant={}: restored generator yields a different next tail", last.variant)}));
            }
        }
        tails.push(t);
        k += 1;
    }
    arts.push(probe("RevocationTailsGenerator", &tag("drained"), &tg, &tg_eq));
    let mut tg2 = Issuer::revocation_tails_generator(&cd.pk, &key_priv, l).map_err(es)?;
    let accessor = SimpleTailsAccessor::new(&mut tg2).map_err(es)?;
    // ---- deltas: every emptiness combination
    let reg0 = reg.clone();
    let dv = |d: &RevocationRegistryDelta| {
        let j = jv(d);
        format!("{}/prev={} issued={} revoked={}", mode, if j.get("prevAccum").is_some() { "some" } else { "none" },
            j.get("issued").and_then(|a| a.as_array()).map(|a| a.len()).unwrap_or(0), j.get("revoked").and_then(|a| a.as_array()).map(|a| a.len()).unwrap_or(0))
    };
    let d_plain = RevocationRegistryDelta::from(&reg);
    put!(arts, "RevocationRegistryDelta", tag(&dv(&d_plain)), &d_plain);
    // ---- issue with revocation
    let idx = 1 + rng.below(l as u64) as u32;
    let (mut sig, sproof, witness, delta) = Issuer::sign_credential_with_revoc("prover-ser", &blinded, &bproof, &nonce, &inonce, &known_vals, &cd.pk, &cd.sk, idx, l, o.by_default, &mut reg, &key_priv).map_err(es)?;
    put!(arts, "CredentialSignature", tag("with_r_credential/unprocessed"), &sig);
    put!(arts, "SignatureCorrectnessProof", tag(""), &sproof);
    put!(arts, "Witness", tag(&format!("{}/issuer", mode)), &witness);
    if let Some(d) = &delta {
        put!(arts, "RevocationRegistryDelta", tag(&dv(d)), d);
    }
    put!(arts, "RevocationRegistry", tag("after_issue"), &reg);
    put!(arts, "Accumulator", tag("after_issue"), &reg.accum);
    Prover::process_credential_signature(&mut sig, &all, &sproof, &factors, &cd.pk, &inonce, Some(&key_pub), Some(&reg), Some(&witness)).map_err(es)?;
    put!(arts, "CredentialSignature", tag("with_r_credential"), &sig);
    let sigd = jv(&sig);
    put_sub!(arts, "PrimaryCredentialSignature", PrimaryCredentialSignature, tag(""), &sigd["p_credential"]);
    put_sub!(arts, "NonRevocationCredentialSignature", NonRevocationCredentialSignature, tag(""), &sigd["r_credential"]);
    put_sub!(arts, "WitnessSignature", WitnessSignature, tag(""), &sigd["r_credential"]["witness_signature"]);
    // witness from scratch (on demand: only the own index issued => omega is the identity)
    let full_delta = match (&delta, o.by_default) {
        (Some(d), _) => d.clone(),
        (None, _) => RevocationRegistryDelta::from(&reg),
    };
    let w_new = Witness::new(idx, l, o.by_default, &full_delta, &accessor).map_err(es)?;
    let w_inf = jv(&w_new)["omega"].as_str().map(|s| vf::PointG2Inf::from_string(s).ok().and_then(|p| p.is_inf().ok()).unwrap_or(false)).unwrap_or(false);
    put!(arts, "Witness", tag(&format!("{}/new{}", mode, if w_inf { "/identity" } else { "" })), &w_new);
    // ---- proofs with the non-revocation part
    let proof = prove_one(&cd, &req, &sig, &all, &pnonce, Some((&reg, &witness)))?;
    proof_parts(arts, &tag(&format!("{}/non_revoc", if preds.is_empty() { "no_predicates" } else { "predicates" })), &proof)?;
    let ok = verify_one(&cd, &req, &proof, &pnonce, Some((&key_pub, &reg)));
    if !matches!(ok, Out::Ok(true)) {
        return Err(format!("flow {}: honest proof with non-revocation part not accepted: {} {}", o.fixture, ok.tag(), ok.msg()));
    }
    let req0 = request(&[], &[])?;
    let proof0 = prove_one(&cd, &req0, &sig, &all, &pnonce, None)?;
    proof_parts(arts, &tag("nothing_revealed/no_non_revoc"), &proof0)?;
    // an x-list without m2 (the optional field is skipped)
    {
        let xs: Vec<vf::GroupOrderElement> = (0..13).map(|i| vf::GroupOrderElement::from_bytes(&[i as u8 + 1]).unwrap()).collect();
        // NonRevocProofXList::from_list takes the crate's scalar type
        let x = NonRevocProofXList::from_list(&xs);
        put!(arts, "NonRevocProofXList", tag("m2_none"), &x);
        // ... and one that carries the legacy field (older provers wrote it): it must survive every form
        let mut xj = jv(&x);
        xj["m2"] = json!(vf::GroupOrderElement::from_bytes(&[77u8, 3, 9]).map_err(es)?.to_string().map_err(es)?);
        let x2: NonRevocProofXList = from_jv(&xj)?;
        put!(arts, "NonRevocProofXList", tag("m2_some"), &x2);
        // the same inside a whole proof (legacy layout of the non-revocation part)
        let mut pj = jv(&proof);
        if let Some(xl) = pj.pointer_mut("/proofs/0/non_revoc_proof/x_list").and_then(|v| v.as_object_mut()) {
            xl.insert("m2".to_string(), xj["m2"].clone());
            let p2: Proof = from_jv(&pj)?;
            put!(arts, "Proof", tag("legacy_x_list_m2"), &p2);
        }
    }
    scen["signature"] = jv(&sig);
    scen["proof"] = jv(&proof);
    scen["witness"] = jv(&witness);
    scen["registry"] = jv(&reg);
    scen["rev_key_pub"] = jv(&key_pub);
    scen["l"] = json!(l);
    scen["idx"] = json!(idx);
    // ---- more deltas: revoke / issue another index, merged, cancelling, from_parts
    let others: Vec<u32> = (1..=l).filter(|i| *i != idx).collect();
    if let Some(&j) = others.first() {
        let d_a = if o.by_default {
            Issuer::revoke_credential(&mut reg, l, j, &cd.pk, &key_priv).map_err(es)?
        } else {
            Issuer::update_revocation_registry(&mut reg, l, BTreeSet::from([j]), BTreeSet::new(), &cd.pk, &key_priv).map_err(es)?
        };
        put!(arts, "RevocationRegistryDelta", tag(&dv(&d_a)), &d_a);
        let mut w_upd = witness.clone();
        w_upd.update(idx, l, &d_a, &accessor).map_err(es)?;
        put!(arts, "Witness", tag(&format!("{}/updated", mode)), &w_upd);
        let d_b = if o.by_default {
            Issuer::unrevoke_credential(&mut reg, l, j, &cd.pk, &key_priv).map_err(es)?
        } else {
            Issuer::revoke_credential(&mut reg, l, j, &cd.pk, &key_priv).map_err(es)?
        };
        put!(arts, "RevocationRegistryDelta", tag(&dv(&d_b)), &d_b);
        // merged: the two cancel => prev present, both sets empty
        let mut m = d_a.clone();
        m.merge(&d_b).map_err(es)?;
        put!(arts, "RevocationRegistryDelta", tag(&format!("merged_cancelling/{}", dv(&m))), &m);
        if others.len() >= 2 {
            let (j2, j3) = (others[0], others[1]);
            let d_c = Issuer::update_revocation_registry(&mut reg, l,
                if o.by_default { BTreeSet::new() } else { BTreeSet::from([j2, j3]) },
                if o.by_default { BTreeSet::from([j2, j3]) } else { BTreeSet::new() }, &cd.pk, &key_priv).map_err(es)?;
            put!(arts, "RevocationRegistryDelta", tag(&dv(&d_c)), &d_c);
            let d_d = Issuer::update_revocation_registry(&mut reg, l,
                if o.by_default { BTreeSet::from([j2]) } else { BTreeSet::new() },
                if o.by_default { BTreeSet::new() } else { BTreeSet::from([j2]) }, &cd.pk, &key_priv).map_err(es)?;
            let mut m2 = d_c.clone();
            m2.merge(&d_d).map_err(es)?;
            put!(arts, "RevocationRegistryDelta", tag(&format!("merged/{}", dv(&m2))), &m2);
            // both sets non-empty
            let both = RevocationRegistryDelta::from_parts(Some(&reg0), &reg, &HashSet::from([j2, idx]), &HashSet::from([j3]));
            put!(arts, "RevocationRegistryDelta", tag(&format!("from_parts/{}", dv(&both))), &both);
            for (iss, rev) in [(vec![j2], vec![]), (vec![], vec![j3]), (vec![j2, idx], vec![j3])] {
                let d = RevocationRegistryDelta::from_parts(None, &reg, &iss.iter().copied().collect(), &rev.iter().copied().collect());
                put!(arts, "RevocationRegistryDelta", tag(&format!("from_parts/{}", dv(&d))), &d);
            }
        }
    }
    Ok(scen)
}

pub fn flow_plan(thorough: bool, rng: &mut Rng) -> Vec<FlowOpts> {
    let mut v = vec![
        FlowOpts { fixture: "gvt_rev", by_default: false, l: 4, negative: false, predicates: true, commitment: false },
        FlowOpts { fixture: "xyz_rev", by_default: true, l: 5, negative: true, predicates: true, commitment: true },
        FlowOpts { fixture: "pqr_norev", by_default: false, l: 3, negative: true, predicates: true, commitment: false },
        FlowOpts { fixture: "pqr_norev", by_default: false, l: 3, negative: false, predicates: false, commitment: true },
    ];
    let extra = if thorough { 40 } else { 2 };
    for _ in 0..extra {
        v.push(FlowOpts {
            fixture: *rng.pick(&["gvt_rev", "xyz_rev", "pqr_norev"]),
            by_default: rng.chance(1, 2),
            l: 3 + rng.below(if thorough { 40 } else { 6 }) as u32,
            negative: rng.chance(1, 3),
            predicates: rng.chance(2, 3),
            commitment: rng.chance(1, 3),
        });
    }
    v
}

pub fn collect(thorough: bool, rng: &mut Rng) -> Result<(Vec<Art>, Vec<Value>), String> {
    let mut arts = vec![];
    let mut scens = vec![];
    primitives(&mut arts, rng)?;
    for o in flow_plan(thorough, rng) {
        scens.push(flow(&o, rng, &mut arts)?);
    }
    Ok((arts, scens))
}

fn gen_ser(thorough: bool, rng: &mut Rng) -> Result<(), String> {
    let t = std::time::Instant::now();
    let (arts, _) = collect(thorough, rng)?;
    let mut n = 0;
    for a in &arts {
        emit(&json!({"id": format!("ser/{}", n), "op": "wire_check",
            "in": {"type": a.ty, "variant": a.variant, "backend": backend_str(), "json": a.json, "bin": a.bin},
            "impl": {"failed": a.failed, "checks": a.checks, "mp_len": a.mp.len(), "mpn_len": a.mpn.len()},
            "class": {"type": a.ty, "labels": if a.labels.is_empty() { "none".to_string() } else { a.labels.join("+") }, "failed": a.failed.len()}}));
        n += 1;
    }
    eprintln!("ser: {} objects, {:.1}s", n, t.elapsed().as_secs_f64());
    for c in golden_cases()? {
        let mut c = c;
        c["id"] = json!(format!("ser/{}", n));
        emit(&c);
        n += 1;
    }
    eprintln!("ser: +golden, {} cases, {:.1}s", n, t.elapsed().as_secs_f64());
    Ok(())
}
