//! C20 — counterparty-controlled input never panics the library.
//!
//! Stream `c20`: structure-aware mutation of honest documents of every public type a
//! counterparty can send, in three tree shapes (JSON text form, MessagePack named form with
//! byte arrays, MessagePack positional form) plus raw text / byte damage; every mutated
//! document is decoded with serde_json and rmp_serde and, when it decodes, driven through
//! every entry point that consumes the type. Every library call runs under `util::guard`
//! (panics) and a watchdog (hangs); case batches run in child processes (aborts).
//!
//!   clh gen c20 --tier T --seed N          parent: spawns `clh gen c20-batch` children
//!   clh gen c20-batch ...                  hidden: one batch (parameters in C20_* variables)
use crate::fixtures::*;
use crate::pres::{self, dec_of_hex, Pool, PredSpec, ReqSpec, Scenario};
use crate::reg::{delta_json, g2_canon, mode_str};
use crate::rng::Rng;
use crate::tamper::dec_add;
use crate::util::*;
use anoncreds_clsignatures::verif as vf;
use anoncreds_clsignatures::*;
use serde::de::DeserializeOwned;
use serde_json::{json, Value};
use std::collections::{BTreeMap, BTreeSet};
use std::io::{BufRead, Write};
use std::path::PathBuf;
use std::sync::{Arc, Mutex};
use std::time::{Duration, Instant};

const R_HEX: &str = "2523648240000001BA344D8000000007FF9F800000000010A10000000000000D";
const R_MINUS1_HEX: &str = "2523648240000001BA344D8000000007FF9F800000000010A10000000000000C";
const R_PLUS1_HEX: &str = "2523648240000001BA344D8000000007FF9F800000000010A10000000000000E";
const HANG_EXIT: i32 = 42;

fn trunc(s: &str, n: usize) -> String {
    if s.len() <= n {
        s.to_string()
    } else {
        let mut e = n;
        while !s.is_char_boundary(e) {
            e -= 1;
        }
        format!("{}...({} bytes)", &s[..e], s.len())
    }
}

// ------------------------------------------------------------------ watchdog + call recorder

struct WdState {
    active: Option<(Instant, String, Duration)>,
    header: Option<Value>,
    calls: Vec<Value>,
}

#[derive(Clone)]
struct Wd {
    st: Arc<Mutex<WdState>>,
    timeout: Duration,
    cur_file: Option<PathBuf>,
}

impl Wd {
    fn start(timeout: Duration, cur_file: Option<PathBuf>) -> Wd {
        let st = Arc::new(Mutex::new(WdState { active: None, header: None, calls: vec![] }));
        let st2 = st.clone();
        std::thread::spawn(move || loop {
            std::thread::sleep(Duration::from_millis(100));
            let g = st2.lock().unwrap();
            if let Some((t0, entry, limit)) = &g.active {
                if t0.elapsed() > *limit {
                    // the call does not return: report and leave the process (the stuck thread
                    // cannot be stopped); the parent restarts after this case
                    let mut calls = g.calls.clone();
                    calls.push(json!({"entry": entry, "status": "hang", "msg": format!("no return within {} ms", limit.as_millis())}));
                    let line = finish_line(g.header.clone().unwrap_or(json!({})), calls);
                    let out = std::io::stdout();
                    let mut o = out.lock();
                    let _ = writeln!(o, "{}", serde_json::to_string(&line).unwrap());
                    let _ = o.flush();
                    std::process::exit(HANG_EXIT);
                }
            }
        });
        Wd { st, timeout, cur_file }
    }

    fn begin(&self, header: Value) {
        if let Some(p) = &self.cur_file {
            let _ = std::fs::write(p, serde_json::to_string(&header).unwrap());
        }
        let mut g = self.st.lock().unwrap();
        g.header = Some(header);
        g.calls.clear();
        g.active = None;
    }

    fn end(&self) -> Value {
        let mut g = self.st.lock().unwrap();
        let h = g.header.take().unwrap_or(json!({}));
        let calls = std::mem::take(&mut g.calls);
        finish_line(h, calls)
    }

    /// one library call: watchdog armed, panic captured, outcome recorded
    fn call<T, E: std::fmt::Display>(&self, entry: &str, f: impl FnOnce() -> Result<T, E>) -> Out<T> {
        self.call_t(entry, self.timeout, f)
    }

    /// `args`: annotation of the non-document arguments (e.g. "max_cred_num>=2^31")
    fn call_a<T, E: std::fmt::Display>(&self, entry: &str, args: &str, f: impl FnOnce() -> Result<T, E>) -> Out<T> {
        let r = self.call_t(entry, self.timeout, f);
        if !args.is_empty() {
            let mut g = self.st.lock().unwrap();
            if let Some(c) = g.calls.last_mut() {
                c["args"] = json!(args);
            }
        }
        r
    }

    fn call_t<T, E: std::fmt::Display>(&self, entry: &str, limit: Duration, f: impl FnOnce() -> Result<T, E>) -> Out<T> {
        if let Some(p) = &self.cur_file {
            let _ = std::fs::write(p.with_extension("entry"), entry);
        }
        {
            let mut g = self.st.lock().unwrap();
            g.active = Some((Instant::now(), entry.to_string(), limit));
        }
        let t0 = Instant::now();
        let r = guard(f);
        let ms = t0.elapsed().as_millis() as u64;
        let mut g = self.st.lock().unwrap();
        g.active = None;
        let mut c = json!({"entry": entry, "status": r.tag(), "msg": trunc(&r.msg(), 240)});
        if ms >= 1000 {
            c["ms"] = json!(ms);
        }
        g.calls.push(c);
        r
    }

    fn note(&self, key: &str, v: Value) {
        let mut g = self.st.lock().unwrap();
        if let Some(h) = g.header.as_mut() {
            h["impl"][key] = v;
        }
    }
}

/// header = {"id","op","in","class","impl":{..},"doc":..}; the document is kept only when a call failed badly
fn finish_line(mut h: Value, calls: Vec<Value>) -> Value {
    let worst = |s: &str| calls.iter().any(|c| c["status"] == s);
    let outcome = if worst("abort") { "abort" } else if worst("hang") { "hang" } else if worst("panic") { "panic" } else { "clean" };
    let driven = calls.iter().filter(|c| !c["entry"].as_str().unwrap_or("").starts_with("decode:")).count();
    let doc = h.as_object_mut().and_then(|m| m.remove("doc")).unwrap_or(Value::Null);
    if !h["impl"].is_object() {
        h["impl"] = json!({});
    }
    h["impl"]["calls"] = json!(calls);
    h["impl"]["outcome"] = json!(outcome);
    if outcome != "clean" {
        h["impl"]["doc"] = doc;
    }
    if !h["class"].is_object() {
        h["class"] = json!({});
    }
    h["class"]["outcome"] = json!(outcome);
    h["class"]["driven"] = json!(if driven == 0 { "0" } else if driven <= 2 { "1-2" } else { "3+" });
    h
}

// ------------------------------------------------------------------ trees and mutations

#[derive(Clone, Debug, PartialEq)]
enum Seg {
    K(String),
    I(usize),
}
type Path = Vec<Seg>;

fn path_str(p: &Path) -> String {
    let mut s = String::new();
    for seg in p {
        match seg {
            Seg::K(k) => {
                s.push('/');
                s.push_str(k)
            }
            Seg::I(i) => s.push_str(&format!("/{}", i)),
        }
    }
    s
}

fn last_key(p: &Path) -> &str {
    for seg in p.iter().rev() {
        if let Seg::K(k) = seg {
            return k;
        }
    }
    ""
}

fn has_key(p: &Path, k: &str) -> bool {
    p.iter().any(|s| matches!(s, Seg::K(x) if x == k))
}

fn is_bytes_leaf(v: &Value) -> bool {
    match v.as_array() {
        Some(a) => a.len() >= 4 && a.iter().all(|x| x.as_u64().map(|b| b <= 255).unwrap_or(false)),
        None => false,
    }
}

#[derive(Clone, Copy, Debug, PartialEq)]
enum Node {
    Map,
    Arr,
    Str,
    Num,
    Bytes,
    Other,
}

fn collect(v: &Value, path: &mut Path, out: &mut Vec<(Path, Node)>) {
    if is_bytes_leaf(v) {
        out.push((path.clone(), Node::Bytes));
        return;
    }
    match v {
        Value::Object(m) => {
            out.push((path.clone(), Node::Map));
            for (k, x) in m {
                path.push(Seg::K(k.clone()));
                collect(x, path, out);
                path.pop();
            }
        }
        Value::Array(a) => {
            out.push((path.clone(), Node::Arr));
            for (i, x) in a.iter().enumerate() {
                path.push(Seg::I(i));
                collect(x, path, out);
                path.pop();
            }
        }
        Value::String(_) => out.push((path.clone(), Node::Str)),
        Value::Number(_) => out.push((path.clone(), Node::Num)),
        _ => out.push((path.clone(), Node::Other)),
    }
}

fn node_at<'a>(v: &'a Value, p: &[Seg]) -> Option<&'a Value> {
    let mut cur = v;
    for seg in p {
        cur = match seg {
            Seg::K(k) => cur.as_object()?.get(k)?,
            Seg::I(i) => cur.as_array()?.get(*i)?,
        };
    }
    Some(cur)
}

fn node_at_mut<'a>(v: &'a mut Value, p: &[Seg]) -> Option<&'a mut Value> {
    let mut cur = v;
    for seg in p {
        cur = match seg {
            Seg::K(k) => cur.as_object_mut()?.get_mut(k)?,
            Seg::I(i) => cur.as_array_mut()?.get_mut(*i)?,
        };
    }
    Some(cur)
}

#[derive(Clone, Debug)]
enum Op {
    Set(Value),
    DropKey(String),
    Rename(String, String),
    AddKey(String, Value),
    DropAt(usize),
    DupAt(usize),
    Push(Vec<Value>),
    Reverse,
}

#[derive(Clone, Debug)]
struct Mutn {
    path: Path,
    op: Op,
    /// what was done, without the location (histogram class)
    kind: String,
    hang_prone: bool,
}

impl Mutn {
    fn label(&self, ty: &str) -> String {
        format!("{}{}: {}", ty, path_str(&self.path), self.kind)
    }
}

fn apply(root: &mut Value, m: &Mutn) -> bool {
    let node = match node_at_mut(root, &m.path) {
        Some(n) => n,
        None => return false,
    };
    match &m.op {
        Op::Set(v) => {
            *node = v.clone();
            true
        }
        Op::DropKey(k) => node.as_object_mut().map(|o| o.remove(k).is_some()).unwrap_or(false),
        Op::Rename(a, b) => match node.as_object_mut() {
            Some(o) => match o.remove(a) {
                Some(v) => {
                    o.insert(b.clone(), v);
                    true
                }
                None => false,
            },
            None => false,
        },
        Op::AddKey(k, v) => node.as_object_mut().map(|o| o.insert(k.clone(), v.clone()).is_none() || true).unwrap_or(false),
        Op::DropAt(i) => match node.as_array_mut() {
            Some(a) if *i < a.len() => {
                a.remove(*i);
                true
            }
            _ => false,
        },
        Op::DupAt(i) => match node.as_array_mut() {
            Some(a) if *i < a.len() => {
                let x = a[*i].clone();
                a.insert(*i, x);
                true
            }
            _ => false,
        },
        Op::Push(vs) => match node.as_array_mut() {
            Some(a) => {
                a.extend(vs.iter().cloned());
                true
            }
            None => false,
        },
        Op::Reverse => match node.as_array_mut() {
            Some(a) => {
                a.reverse();
                true
            }
            None => false,
        },
    }
}

/// constants the leaf mutations need
struct Consts {
    n_dec: String,
    huge_dec: String,
    g1_inf: String,
    g1_gen: String,
    g1_two: String,
    g2_inf: String,
    g2_gen: String,
    g2_two: String,
    gt_one: String,
}

impl Consts {
    fn new(n_dec: &str, rng: &mut Rng) -> Consts {
        let g1 = vf::PointG1::new_generator().unwrap();
        let g2 = vf::PointG2::new_generator().unwrap();
        Consts {
            n_dec: n_dec.to_string(),
            huge_dec: dec_of_hex(&format!("1{}", rng.hex_bits(4092))),
            g1_inf: vf::PointG1::new_inf().unwrap().to_string().unwrap(),
            g1_gen: g1.to_string().unwrap(),
            g1_two: g1.add(&g1).unwrap().to_string().unwrap(),
            g2_inf: vf::PointG2::new_inf().unwrap().to_string().unwrap(),
            g2_gen: g2.to_string().unwrap(),
            g2_two: g2.add(&g2).unwrap().to_string().unwrap(),
            gt_one: vf::Pair::new_unity().unwrap().to_string().unwrap(),
        }
    }
}

#[derive(Clone, Copy, Debug, PartialEq)]
enum Leaf {
    BigNum,
    Scalar,
    Point(usize),
    Name,
    I32,
    U32,
    Num,
    Bytes,
}

fn leaf_kind(path: &Path, v: &Value, node: Node) -> Leaf {
    match node {
        Node::Bytes => Leaf::Bytes,
        Node::Num => {
            let k = last_key(path);
            if k == "value" {
                Leaf::I32
            } else if k == "i" || k == "issued" || k == "revoked" {
                Leaf::U32
            } else {
                Leaf::Num
            }
        }
        _ => {
            let s = v.as_str().unwrap_or("");
            let k = last_key(path);
            if s.contains(' ') {
                Leaf::Point(s.split_whitespace().count())
            } else if has_key(path, "x_list")
                || (has_key(path, "r_credential") && (k == "c" || k == "vr_prime_prime" || k == "m2"))
                || k == "gamma"
                || k == "vr_prime"
            {
                Leaf::Scalar
            } else if !s.is_empty() && s.trim_start_matches('-').bytes().all(|b| b.is_ascii_digit()) && s != "-" {
                Leaf::BigNum
            } else {
                Leaf::Name
            }
        }
    }
}

/// (kind label, new value, hang-prone)
fn leaf_candidates(kind: Leaf, orig: &Value, c: &Consts, rng: &mut Rng) -> Vec<(String, Value, bool)> {
    let mut out: Vec<(String, Value, bool)> = vec![];
    let mut add = |l: &str, v: Value| out.push((l.to_string(), v, false));
    match kind {
        Leaf::BigNum => {
            let o = orig.as_str().unwrap_or("0").to_string();
            add("bn=0", json!("0"));
            add("bn=1", json!("1"));
            add("bn=-1", json!("-1"));
            add("bn=negated", json!(if o.starts_with('-') { o[1..].to_string() } else { format!("-{}", o) }));
            add("bn=huge(4096 bit)", json!(c.huge_dec));
            add("bn=-huge(4096 bit)", json!(format!("-{}", c.huge_dec)));
            add("bn=n", json!(c.n_dec));
            add("bn=n+1", json!(dec_add(&c.n_dec, 1)));
            add("bn=n-1", json!(dec_add(&c.n_dec, -1)));
            add("bn=-n", json!(format!("-{}", c.n_dec)));
            add("bn=2", json!("2"));
            add("bn=orig+1", json!(dec_add(&o, 1)));
            add("bn=empty string", json!(""));
            add("bn=non-numeric text", json!("abc"));
            add("bn=trailing garbage", json!(format!("{}x", o)));
            add("bn=plus sign", json!(format!("+{}", o.trim_start_matches('-'))));
            add("bn=leading space", json!(format!(" {}", o)));
            add("bn=hex prefix", json!("0x10"));
            add("bn=minus only", json!("-"));
            add("bn=minus zero", json!("-0"));
            add("bn=5000 digits", json!("9".repeat(5000)));
            add("bn=json number", json!(5));
            add("bn=negative json number", json!(-5));
            add("bn=byte array", json!([1, 2, 3, 4]));
            add("bn=empty array", json!([]));
            add("bn=null", Value::Null);
            add("bn=NUL inside", json!("12\u{0}34"));
            add("bn=unicode digits", json!("١٢٣"));
        }
        Leaf::Scalar => {
            add("scalar=0", json!("0"));
            add("scalar=1", json!("1"));
            add("scalar=empty string", json!(""));
            add("scalar=non-hex text", json!("XYZ"));
            add("scalar=non-hex inside", json!("12G4"));
            add("scalar=hex prefix", json!("0x1F"));
            add("scalar=minus sign", json!("-1"));
            add("scalar=r", json!(R_HEX));
            add("scalar=r-1", json!(R_MINUS1_HEX));
            add("scalar=r+1", json!(R_PLUS1_HEX));
            add("scalar=64 F", json!("F".repeat(64)));
            add("scalar=71 F", json!("F".repeat(71)));
            add("scalar=lower-case hex", json!("abcdef0123"));
            add("scalar=leading space", json!(" 1F"));
            add("scalar=trailing space", json!("1F "));
            add("scalar=non-ascii", json!("é1"));
            add("scalar=random 63 digits", json!(rng.hex_bits(252)));
            add("scalar=json number", json!(7));
            add("scalar=null", Value::Null);
            add("scalar=empty byte array", json!([]));
            add("scalar=33 byte array", json!(vec![255u8; 33]));
            add("scalar=32 byte array ff", json!(vec![255u8; 32]));
            add("scalar=1 byte array", json!([0, 0, 0, 0]));
            out.push(("scalar=over-long 72 hex digits".into(), json!("F".repeat(72)), true));
            out.push(("scalar=over-long 72 hex digits (1 then zeros)".into(), json!(format!("1{}", "0".repeat(71))), true));
            out.push(("scalar=over-long 80 hex digits".into(), json!(rng.hex_bits(320)), true));
            out.push(("scalar=over-long 100 hex digits".into(), json!("F".repeat(100)), true));
            out.push(("scalar=over-long 1000 hex digits".into(), json!("A".repeat(1000)), true));
        }
        Leaf::Point(ntok) => {
            let o = orig.as_str().unwrap_or("").to_string();
            let toks: Vec<String> = o.split_whitespace().map(|s| s.to_string()).collect();
            let (inf, gen, two, other) = match ntok {
                6 => (c.g1_inf.clone(), c.g1_gen.clone(), c.g1_two.clone(), c.g2_gen.clone()),
                12 => (c.g2_inf.clone(), c.g2_gen.clone(), c.g2_two.clone(), c.g1_gen.clone()),
                _ => (c.gt_one.clone(), c.gt_one.clone(), c.gt_one.clone(), c.g1_gen.clone()),
            };
            add("point=identity", json!(inf));
            add("point=generator", json!(gen));
            add("point=2*generator", json!(two));
            add("point=point of another group", json!(other));
            add("point=empty string", json!(""));
            add("point=single space", json!(" "));
            add("point=null", Value::Null);
            add("point=json number", json!(1));
            add("point=all coordinates zero", json!(vec!["1 0"; ntok / 2].join(" ")));
            add("point=all coordinates one", json!(vec!["1 1"; ntok / 2].join(" ")));
            add("point=empty byte array", json!([]));
            add("point=127 byte array", json!(vec![1u8; 127]));
            add("point=128 byte array of ff", json!(vec![255u8; 128]));
            add("point=128 byte array of 0", json!(vec![0u8; 128]));
            add("point=129 byte array", json!(vec![1u8; 129]));
            add("point=512 byte array of ff", json!(vec![255u8; 512]));
            let with_tok = |i: usize, t: &str| -> Value {
                let mut x = toks.clone();
                if i < x.len() {
                    x[i] = t.to_string();
                }
                json!(x.join(" "))
            };
            let pos = 2 * (rng.below((ntok.max(2) / 2) as u64) as usize);
            for (l, t) in [("0", "0"), ("i32::MAX", "2147483647"), ("i32::MAX+1", "2147483648"), ("u32::MAX", "4294967295"),
                           ("u32::MAX+1", "4294967296"), ("-1", "-1"), ("+1", "+1"), ("1.0", "1.0"), ("2", "2"), ("65536", "65536"), ("hex", "FF"),
                           ("2^26-1", "67108863"), ("2^26", "67108864"), ("2^30", "1073741824")] {
                add(&format!("point=excess index {}", l), with_tok(pos, t));
            }
            // a zero excess counter at each position in turn, and at all of them (amcl's lazy
            // reduction shifts by the counter: the refusal of 0 is what keeps FP::neg in range)
            for i in 0..ntok / 2 {
                add(&format!("point=zero excess at {}", i), with_tok(2 * i, "0"));
            }
            {
                let mut x = toks.clone();
                for i in 0..ntok / 2 { if 2 * i < x.len() { x[2 * i] = "0".to_string(); } }
                add("point=zero excess at all", json!(x.join(" ")));
            }
            for (l, t) in [("0", "0".to_string()), ("non-hex", "XYZ".to_string()), ("64 F", "F".repeat(64)), ("65 hex digits", "1".repeat(65)),
                           ("72 hex digits", "F".repeat(72)), ("100 hex digits", "F".repeat(100)), ("1000 hex digits", "A".repeat(1000)),
                           ("lower-case", "abcdef".to_string()), ("minus", "-1".to_string()), ("modulus p", "2523648240000001BA344D80000000086121000000000013A700000000000013".to_string())] {
                add(&format!("point=coordinate {}", l), with_tok(pos + 1, &t));
            }
            // coordinates lengthened to the limits of a BIG (70 hex digits = NLEN*BASEBITS bits fit, 71 spill into the
            // unchecked top limb): both halves of one Fp2 component / one coordinate pair, and every coordinate
            for (l, pad) in [("69 digits 7F..", "7FFFF"), ("70 digits 7F..", "7FFFFF"), ("70 digits F..", "FFFFFF"), ("71 digits 7F..", "7FFFFFF"),
                             ("71 digits 80..", "8000000"), ("71 digits F..", "FFFFFFF"), ("71 digits 30..", "3000000"), ("72 digits 7F..", "7FFFFFFF")] {
                let padded = |sel: &dyn Fn(usize) -> bool| -> Value {
                    let mut x = toks.clone();
                    for i in 0..ntok / 2 {
                        if sel(i) && 2 * i + 1 < x.len() && x[2 * i + 1].len() == 64 { x[2 * i + 1] = format!("{}{}", pad, x[2 * i + 1]); }
                    }
                    json!(x.join(" "))
                };
                add(&format!("point=coordinates 0,1 lengthened to {}", l), padded(&|i| i < 2));
                add(&format!("point=coordinates 0..3 lengthened to {}", l), padded(&|i| i < 4));
                add(&format!("point=all coordinates lengthened to {}", l), padded(&|_| true));
            }
            if !toks.is_empty() {
                add("point=last token dropped", json!(toks[..toks.len() - 1].join(" ")));
                add("point=last component dropped", json!(toks[..toks.len().saturating_sub(2)].join(" ")));
                add("point=extra component", json!(format!("{} 1 0", o)));
                add("point=extra token", json!(format!("{} 1", o)));
                add("point=unicode space separators", json!(toks.join("\u{2003}")));
                add("point=tab separators", json!(toks.join("\t")));
                add("point=newline separators", json!(toks.join("\n")));
                add("point=leading and trailing space", json!(format!("  {}  ", o)));
                // off the curve: last hex digit of the first coordinate changed
                let mut x = toks.clone();
                if x.len() > 1 {
                    let last = x[1].pop().unwrap_or('0');
                    x[1].push(if last == '0' { '1' } else { '0' });
                    add("point=off curve", json!(x.join(" ")));
                }
            }
        }
        Leaf::Name => {
            add("name=empty", json!(""));
            add("name=unknown", json!("no_such_attribute"));
            add("name=master_secret", json!("master_secret"));
            add("name=age", json!("age"));
            add("name=name", json!("name"));
            add("name=DELTA", json!("DELTA"));
            add("name=0", json!("0"));
            add("name=lower-case", json!(orig.as_str().unwrap_or("").to_lowercase()));
            add("name=10000 chars", json!("a".repeat(10000)));
            add("name=json number", json!(3));
            add("name=null", Value::Null);
            add("name=nested", json!({"GE": 1}));
        }
        Leaf::I32 => {
            for (l, v) in [("0", json!(0)), ("i32::MIN", json!(i32::MIN)), ("i32::MAX", json!(i32::MAX)), ("i32::MIN+1", json!(i32::MIN + 1)),
                           ("i32::MAX-1", json!(i32::MAX - 1)), ("i32::MAX+1", json!(i32::MAX as i64 + 1)), ("i32::MIN-1", json!(i32::MIN as i64 - 1)),
                           ("-1", json!(-1)), ("i64::MIN", json!(i64::MIN)), ("u64::MAX", json!(u64::MAX)), ("float", json!(1.5)),
                           ("string", json!("18")), ("null", Value::Null)] {
                add(&format!("threshold={}", l), v);
            }
        }
        Leaf::U32 => {
            for (l, v) in [("0", json!(0)), ("1", json!(1)), ("u32::MAX", json!(u32::MAX)), ("u32::MAX-1", json!(u32::MAX - 1)), ("2^31", json!(1u64 << 31)),
                           ("2^31-1", json!((1u64 << 31) - 1)), ("u32::MAX+1", json!(u32::MAX as u64 + 1)), ("-1", json!(-1)), ("6", json!(6)), ("7", json!(7)),
                           ("11", json!(11)), ("12", json!(12)), ("float", json!(2.5)), ("string", json!("3")), ("null", Value::Null)] {
                add(&format!("index={}", l), v);
            }
        }
        Leaf::Num => {
            for (l, v) in [("0", json!(0)), ("255", json!(255)), ("256", json!(256)), ("-1", json!(-1)), ("u64::MAX", json!(u64::MAX)), ("float", json!(0.5)),
                           ("string", json!("1")), ("null", Value::Null)] {
                add(&format!("number={}", l), v);
            }
        }
        Leaf::Bytes => {
            let o: Vec<Value> = orig.as_array().cloned().unwrap_or_default();
            let n = o.len();
            add("bytes=emptied", json!([]));
            add("bytes=one zero byte", json!([0]));
            add("bytes=truncated by 1", json!(o[..n.saturating_sub(1)].to_vec()));
            add("bytes=first byte dropped", json!(o[1.min(n)..].to_vec()));
            let mut x = o.clone();
            x.push(json!(0));
            add("bytes=extended by 1", json!(x));
            add("bytes=all zero", json!(vec![0u8; n]));
            add("bytes=all ff", json!(vec![255u8; n]));
            let mut x = o.clone();
            if n > 0 {
                x[n - 1] = json!((o[n - 1].as_u64().unwrap_or(0) + 1) % 256);
            }
            add("bytes=last byte+1", json!(x));
            let mut x = o.clone();
            if n > 0 {
                x[0] = json!(256);
            }
            add("bytes=element 256", json!(x));
            let mut x = o.clone();
            if n > 0 {
                x[n / 2] = json!(-1);
            }
            add("bytes=element -1", json!(x));
            let mut x = o.clone();
            if n > 0 {
                x[n / 2] = json!("7");
            }
            add("bytes=element of wrong type", json!(x));
            for len in [31usize, 32, 33, 127, 128, 129, 256, 511, 512, 513] {
                add(&format!("bytes={} random bytes", len), json!(rng.bytes(len)));
            }
            add("bytes=100000 zero bytes", json!(vec![0u8; 100000]));
            add("bytes=text instead", json!("1 0 1 0 1 0"));
            add("bytes=decimal text instead", json!("12345"));
            add("bytes=null", Value::Null);
        }
    }
    out
}

fn confusion_values() -> Vec<(&'static str, Value)> {
    vec![("null", Value::Null), ("true", json!(true)), ("0", json!(0)), ("empty string", json!("")), ("empty array", json!([])),
         ("empty map", json!({})), ("nested empty array", json!([[]])), ("nested map", json!({"a": {"b": []}})), ("text", json!("x")),
         ("float", json!(1e300)), ("array of null", json!([null, null, null]))]
}

/// every single structural mutation of a container node
fn structural(path: &Path, v: &Value) -> Vec<Mutn> {
    let mut out = vec![];
    let mk = |op: Op, kind: String| Mutn { path: path.clone(), op, kind, hang_prone: false };
    match v {
        Value::Object(m) => {
            let keys: Vec<String> = m.keys().cloned().collect();
            for k in &keys {
                out.push(mk(Op::DropKey(k.clone()), format!("drop key '{}'", k)));
                out.push(mk(Op::Rename(k.clone(), format!("{}_x", k)), format!("rename key '{}'", k)));
            }
            if keys.len() >= 2 {
                out.push(mk(Op::Rename(keys[0].clone(), keys[1].clone()), format!("rename key '{}' onto '{}'", keys[0], keys[1])));
            }
            if let Some(k0) = keys.first() {
                out.push(mk(Op::AddKey("extra".into(), m[k0].clone()), "add key 'extra'".into()));
                out.push(mk(Op::AddKey("4".into(), m[k0].clone()), "add key '4'".into()));
                out.push(mk(Op::AddKey("master_secret".into(), m[k0].clone()), "add key 'master_secret'".into()));
                out.push(mk(Op::AddKey("".into(), m[k0].clone()), "add empty key".into()));
            }
            out.push(mk(Op::Set(json!({})), "map emptied".into()));
            out.push(mk(Op::Set(json!(m.values().cloned().collect::<Vec<_>>())), "map as positional array".into()));
        }
        Value::Array(a) => {
            out.push(mk(Op::Set(json!([])), "list emptied".into()));
            if !a.is_empty() {
                out.push(mk(Op::DropAt(0), "list: first dropped".into()));
                out.push(mk(Op::DropAt(a.len() - 1), "list: last dropped".into()));
                out.push(mk(Op::DupAt(0), "list: first duplicated".into()));
                out.push(mk(Op::Push(vec![a[a.len() - 1].clone()]), "list: extended by copy of last".into()));
                out.push(mk(Op::Push(vec![a[0].clone(); 30]), "list: extended by 30 copies".into()));
                out.push(mk(Op::Reverse, "list: reversed".into()));
            }
            out.push(mk(Op::Push(vec![Value::Null]), "list: null appended".into()));
            out.push(mk(Op::Push(vec![json!("x")]), "list: text appended".into()));
            out.push(mk(Op::Push(vec![json!([])]), "list: empty list appended".into()));
            out.push(mk(Op::Push(vec![json!(0)]), "list: 0 appended".into()));
            out.push(mk(Op::Push(vec![json!(u32::MAX)]), "list: u32::MAX appended".into()));
            out.push(mk(Op::Push(vec![json!(u32::MAX as u64 + 1)]), "list: u32::MAX+1 appended".into()));
            out.push(mk(Op::Push(vec![json!(-1)]), "list: -1 appended".into()));
        }
        _ => {}
    }
    out
}

/// one random mutation of the tree
fn random_mutation(tree: &Value, c: &Consts, rng: &mut Rng, allow_hang: bool) -> Option<Mutn> {
    let mut nodes = vec![];
    collect(tree, &mut vec![], &mut nodes);
    let leaves: Vec<&(Path, Node)> = nodes.iter().filter(|(_, n)| matches!(n, Node::Str | Node::Num | Node::Bytes)).collect();
    let conts: Vec<&(Path, Node)> = nodes.iter().filter(|(_, n)| matches!(n, Node::Map | Node::Arr)).collect();
    for _ in 0..8 {
        let roll = rng.below(100);
        if roll < 55 && !leaves.is_empty() {
            let (p, n) = *rng.pick(&leaves);
            let v = node_at(tree, p)?;
            let kind = leaf_kind(p, v, *n);
            let cands = leaf_candidates(kind, v, c, rng);
            let (l, nv, hp) = rng.pick(&cands).clone();
            if hp && !allow_hang {
                continue;
            }
            return Some(Mutn { path: p.clone(), op: Op::Set(nv), kind: l, hang_prone: hp });
        } else if roll < 88 && !conts.is_empty() {
            let (p, _) = *rng.pick(&conts);
            let v = node_at(tree, p)?;
            let ms = structural(p, v);
            if ms.is_empty() {
                continue;
            }
            return Some(rng.pick(&ms).clone());
        } else if !nodes.is_empty() {
            let (p, _) = rng.pick(&nodes).clone();
            let cv = confusion_values();
            let (l, v) = rng.pick(&cv).clone();
            return Some(Mutn { path: p, op: Op::Set(v), kind: format!("replaced by {}", l), hang_prone: false });
        }
    }
    None
}

// ------------------------------------------------------------------ quick probe of the predicted defects (development aid)

fn probe() -> Result<(), String> {
    let cd = load_fixture("gvt_rev")?;
    let e = |x: Error| x.to_string();
    let mut known = BTreeMap::new();
    for (a, v) in [("name", "1139481716457488690172217916278103335"), ("sex", "5944657099558967239210949258394887428692050081607692519917050011144233115103"), ("age", "28"), ("height", "175")] {
        known.insert(a.to_string(), v.to_string());
    }
    let known_vals = values_of(&known, &BTreeMap::new())?;
    let mut b = Prover::new_credential_values_builder().map_err(e)?;
    b.add_dec_hidden("master_secret", "12345678901234567890").map_err(e)?;
    b.add_dec_commitment("height", "175", "987654321987654321").map_err(e)?;
    let hidden_vals = b.finalize().map_err(e)?;
    let nonce = new_nonce().map_err(e)?;
    let inonce = new_nonce().map_err(e)?;
    let (blinded, _factors, bproof) = Prover::blind_credential_secrets(&cd.pk, &cd.kcp, &hidden_vals, &nonce).map_err(e)?;
    let show = |what: &str, o: &str, m: String| println!("{:<70} {:<6} {}", what, o, trunc(&m, 160));
    // 1, 2: proof lacking an m_caps / r_caps entry
    for (map, key) in [("m_caps", "master_secret"), ("m_caps", "height"), ("r_caps", "height")] {
        let mut j = jv(&bproof);
        j[map].as_object_mut().unwrap().remove(key);
        let bp: BlindedCredentialSecretsCorrectnessProof = from_jv(&j)?;
        let r = guard(|| Issuer::sign_credential("p", &blinded, &bp, &nonce, &inonce, &known_vals, &cd.pk, &cd.sk));
        show(&format!("sign_credential, proof without {}[{}]", map, key), r.tag(), r.msg());
    }
    // 3: key proof naming an attribute the key does not have / key lacking one
    {
        let mut j = jv(&cd.kcp);
        j["xr_cap"].as_array_mut().unwrap()[0][0] = json!("nope");
        let kcp: CredentialKeyCorrectnessProof = from_jv(&j)?;
        let r = guard(|| Prover::blind_credential_secrets(&cd.pk, &kcp, &hidden_vals, &nonce));
        show("blind_credential_secrets, xr_cap names unknown attribute", r.tag(), r.msg());
        let mut j = jv(&cd.pk);
        j["p_key"]["r"].as_object_mut().unwrap().remove("age");
        let pk: CredentialPublicKey = from_jv(&j)?;
        let r = guard(|| Prover::blind_credential_secrets(&pk, &cd.kcp, &hidden_vals, &nonce));
        show("blind_credential_secrets, key without r[age]", r.tag(), r.msg());
    }
    // 4: excess index of a point string beyond i32::MAX
    for idx in ["2147483647", "2147483648", "4294967295"] {
        let mut j = jv(&cd.pk);
        let s = j["r_key"]["g"].as_str().unwrap().to_string();
        let mut t: Vec<&str> = s.split(' ').collect();
        t[0] = idx;
        j["r_key"]["g"] = json!(t.join(" "));
        let r = guard(|| serde_json::from_value::<CredentialPublicKey>(j.clone()));
        show(&format!("decode CredentialPublicKey, r_key.g excess index {}", idx), r.tag(), r.msg());
    }
    // 5: degenerate moduli
    for n in ["0", "1", "-1", "2", "-5"] {
        let mut j = jv(&cd.pk);
        j["p_key"]["n"] = json!(n);
        let pk: CredentialPublicKey = from_jv(&j)?;
        let r = guard(|| Prover::blind_credential_secrets(&pk, &cd.kcp, &hidden_vals, &nonce));
        show(&format!("blind_credential_secrets, n = {}", n), r.tag(), r.msg());
        let r = guard(|| Issuer::sign_credential("p", &blinded, &bproof, &nonce, &inonce, &known_vals, &pk, &cd.sk));
        show(&format!("sign_credential, n = {}", n), r.tag(), r.msg());
    }
    // 6-8: index arithmetic at the top of u32
    let mut rc = RegCtx::new(&cd, 5, false)?;
    for l in [(1u32 << 31) - 1, 1u32 << 31, u32::MAX] {
        let r = guard(|| Issuer::revocation_tails_generator(&cd.pk, &rc.key_priv, l).map(|g| g.count()));
        show(&format!("revocation_tails_generator, max_cred_num = {}", l), r.tag(), match &r { Out::Ok(c) => format!("count() = {}", c), o => o.msg() });
    }
    for (i, l) in [(1u32, u32::MAX), (u32::MAX, u32::MAX), (5, u32::MAX - 1)] {
        let mut reg = rc.reg.clone();
        let r = guard(|| Issuer::sign_credential_with_revoc("p", &blinded, &bproof, &nonce, &inonce, &known_vals, &cd.pk, &cd.sk, i, l, false, &mut reg, &rc.key_priv));
        show(&format!("sign_credential_with_revoc, rev_idx = {}, max_cred_num = {}", i, l), r.tag(), r.msg());
        let r = guard(|| Issuer::revoke_credential(&mut reg, l, i, &cd.pk, &rc.key_priv));
        show(&format!("revoke_credential, rev_idx = {}, max_cred_num = {}", i, l), r.tag(), r.msg());
        let d = crate::reg::delta_from(None, jv(&rc.reg)["accum"].as_str().unwrap(), &[2], &[])?;
        let r = guard(|| Witness::new(i, l, false, &d, &rc.tails));
        show(&format!("Witness::new, rev_idx = {}, max_cred_num = {}, issued [2]", i, l), r.tag(), r.msg());
        let mut issued = BTreeSet::new();
        issued.insert(i);
        let r = guard(|| RevocationRegistry::for_issued(&cd.pk, &rc.key_priv, l, &issued));
        show(&format!("for_issued, {{{}}}, max_cred_num = {}", i, l), r.tag(), r.msg());
    }
    let _ = &mut rc;
    // 9: point strings: over-long coordinates and large excess indices, decode + arithmetic
    let g2 = vf::PointG2::new_generator().map_err(e)?;
    let g1 = vf::PointG1::new_generator().map_err(e)?;
    let s2 = g2.to_string().map_err(e)?;
    let toks: Vec<String> = s2.split(' ').map(|x| x.to_string()).collect();
    let mut variants: Vec<(String, String)> = vec![];
    for n in [65usize, 70, 71, 72, 73, 80, 100, 200, 1000] {
        let mut t = toks.clone();
        t[1] = "F".repeat(n);
        variants.push((format!("coordinate of {} hex digits", n), t.join(" ")));
        let mut t = toks.clone();
        t[1] = format!("{}{}", "0".repeat(n - 64), toks[1]);
        variants.push((format!("coordinate zero-padded to {} hex digits", n), t.join(" ")));
    }
    for x in ["2", "1000", "67108863", "67108864", "1073741824", "2147483647"] {
        let mut t = toks.clone();
        t[0] = x.to_string();
        variants.push((format!("excess index {}", x), t.join(" ")));
        let mut t = toks.clone();
        for k in 0..6 {
            t[2 * k] = x.to_string();
        }
        variants.push((format!("all excess indices {}", x), t.join(" ")));
    }
    for (what, txt) in variants {
        let r = guard(|| vf::PointG2::from_string_inf(&txt));
        let mut line = format!("decode {}", r.tag());
        if let Out::Ok(p) = &r {
            let a = guard(|| p.add(p).and_then(|q| q.add(p)).and_then(|q| q.sub(p)).and_then(|q| q.neg()));
            let m = guard(|| p.mul(&vf::GroupOrderElement::from_bytes(&[7, 9, 200]).unwrap()));
            let pr = guard(|| vf::Pair::pair(&g1, p));
            let tb = guard(|| p.to_bytes());
            line = format!("{}; add/sub/neg {} {}; mul {} {}; pair {} {}; to_bytes {}", line, a.tag(), a.msg(), m.tag(), m.msg(), pr.tag(), pr.msg(), tb.tag());
        } else {
            line = format!("{} {}", line, r.msg());
        }
        println!("{:<50} {}", what, trunc(&line, 200));
    }
    Ok(())
}

pub fn gen(stream: &str, thorough: bool, rng: &mut Rng) -> Option<Result<(), String>> {
    match stream {
        "c20-probe" => Some(probe()),
        "c20" => Some(parent(thorough, rng)),
        "c20-batch" => Some(batch(thorough, rng)),
        _ => None,
    }
}

// ------------------------------------------------------------------ the honest world the documents come from

#[derive(Clone, Copy, Debug, PartialEq)]
enum Ty {
    PubKey,
    KeyProof,
    Blinded,
    BlindedProof,
    Signature,
    SigProof,
    Witness,
    Registry,
    Delta,
    RevKeyPub,
    Tail,
    ProofPrimary,
    ProofNonRevoc,
    Nonce,
    Values,
    SubProofReq,
}

impl Ty {
    fn name(self) -> &'static str {
        match self {
            Ty::PubKey => "CredentialPublicKey",
            Ty::KeyProof => "CredentialKeyCorrectnessProof",
            Ty::Blinded => "BlindedCredentialSecrets",
            Ty::BlindedProof => "BlindedCredentialSecretsCorrectnessProof",
            Ty::Signature => "CredentialSignature",
            Ty::SigProof => "SignatureCorrectnessProof",
            Ty::Witness => "Witness",
            Ty::Registry => "RevocationRegistry",
            Ty::Delta => "RevocationRegistryDelta",
            Ty::RevKeyPub => "RevocationKeyPublic",
            Ty::Tail => "Tail",
            Ty::ProofPrimary => "Proof",
            Ty::ProofNonRevoc => "Proof(non-revocation)",
            Ty::Nonce => "Nonce",
            Ty::Values => "CredentialValues",
            Ty::SubProofReq => "SubProofRequest",
        }
    }
}

#[derive(Clone, Copy, Debug, PartialEq)]
enum Shape {
    Json,
    Named,
    Positional,
}

impl Shape {
    fn name(self) -> &'static str {
        match self {
            Shape::Json => "json-text-form",
            Shape::Named => "msgpack-named-form",
            Shape::Positional => "msgpack-positional-form",
        }
    }
}

/// one honest document in its three tree shapes
struct Base {
    ty: Ty,
    /// which honest instance (index into the world's lists), e.g. scenario number
    inst: usize,
    json: Value,
    named: Option<Value>,
    positional: Option<Value>,
}

impl Base {
    fn of<T: serde::Serialize>(ty: Ty, inst: usize, t: &T) -> Base {
        let named = rmp_serde::to_vec_named(t).ok().and_then(|b| rmp_serde::from_slice::<Value>(&b).ok());
        let positional = rmp_serde::to_vec(t).ok().and_then(|b| rmp_serde::from_slice::<Value>(&b).ok());
        Base { ty, inst, json: jv(t), named, positional }
    }
    fn tree(&self, s: Shape) -> Option<&Value> {
        match s {
            Shape::Json => Some(&self.json),
            Shape::Named => self.named.as_ref(),
            Shape::Positional => self.positional.as_ref(),
        }
    }
}

struct VecTails(Vec<Tail>);

impl RevocationTailsAccessor for VecTails {
    fn access_tail(&self, tail_id: u32, accessor: &mut dyn FnMut(&Tail)) -> Result<(), Error> {
        match self.0.get(tail_id as usize) {
            Some(t) => {
                accessor(t);
                Ok(())
            }
            None => Err(Error::new(ErrorKind::InvalidState, format!("tail {} not stored", tail_id))),
        }
    }
}

struct World {
    pool: Pool,
    consts: Consts,
    known_vals: CredentialValues,
    hidden_vals: CredentialValues,
    all_vals: CredentialValues,
    nonce: Nonce,
    inonce: Nonce,
    blinded: BlindedCredentialSecrets,
    factors: CredentialSecretsBlindingFactors,
    bproof: BlindedCredentialSecretsCorrectnessProof,
    l: u32,
    idx: u32,
    rc: RegCtx,
    tails_vec: Vec<Tail>,
    tails_small: SimpleTailsAccessor,
    reg_at_issue: RevocationRegistry,
    sig_raw: CredentialSignature,
    sig: CredentialSignature,
    sproof: SignatureCorrectnessProof,
    witness: Witness,
    /// exponent of `witness` (hex), for the model's `witness_update`
    witness_exp: String,
    d_issue2: RevocationRegistryDelta,
    d_issue3: RevocationRegistryDelta,
    d_rev2: RevocationRegistryDelta,
    rc_bd: RegCtx,
    d_bd_rev: RevocationRegistryDelta,
    req: ReqSpec,
    proof_nr: Proof,
    nonce_nr: Nonce,
    scenarios: Vec<(Scenario, Proof)>,
    g_dash_hex: String,
    bases: Vec<Base>,
}

const CD: &str = "gvt_rev";

impl World {
    fn cd(&self) -> &CredDef {
        self.pool.get(CD)
    }

    fn new(rng: &mut Rng) -> Result<World, String> {
        let e = |x: Error| x.to_string();
        let pool = Pool::load()?;
        let cd = pool.get(CD);
        let mut known = BTreeMap::new();
        for (a, v) in [("name", "1139481716457488690172217916278103335"), ("sex", "5944657099558967239210949258394887428692050081607692519917050011144233115103"), ("age", "28"), ("height", "175")] {
            known.insert(a.to_string(), v.to_string());
        }
        let link = dec_of_hex(&rng.hex_bits(255));
        let known_vals = values_of(&known, &BTreeMap::new())?;
        let mut b = Prover::new_credential_values_builder().map_err(e)?;
        b.add_dec_hidden("master_secret", &link).map_err(e)?;
        // a commitment to an attribute the issuer also knows (the key needs an R for it)
        b.add_dec_commitment("height", "175", &dec_of_hex(&rng.hex_bits(200))).map_err(e)?;
        let hidden_vals = b.finalize().map_err(e)?;
        let mut ms = BTreeMap::new();
        ms.insert("master_secret".to_string(), link.clone());
        let all_vals = known_vals.merge(&values_of(&BTreeMap::new(), &ms)?).map_err(e)?;
        let nonce = new_nonce().map_err(e)?;
        let inonce = new_nonce().map_err(e)?;
        let (blinded, factors, bproof) = Prover::blind_credential_secrets(&cd.pk, &cd.kcp, &hidden_vals, &nonce).map_err(e)?;

        let l = 5u32;
        let idx = 3u32;
        let mut rc = RegCtx::new(cd, l, false)?;
        let mut tg = Issuer::revocation_tails_generator(&cd.pk, &rc.key_priv, l).map_err(e)?;
        let mut tails_vec = vec![];
        while let Some(t) = tg.try_next().map_err(e)? {
            tails_vec.push(t);
        }
        let (_kp, _ks, _r, mut small_gen) = Issuer::new_revocation_registry_def(&cd.pk, 2, false).map_err(e)?;
        let tails_small = SimpleTailsAccessor::new(&mut small_gen).map_err(e)?;
        let (_s2, _p2, _w2, d2) = Issuer::sign_credential_with_revoc("other", &blinded, &bproof, &nonce, &inonce, &known_vals, &cd.pk, &cd.sk, 2, l, false, &mut rc.reg, &rc.key_priv).map_err(e)?;
        let (sig_raw, sproof, witness, d3) =
            Issuer::sign_credential_with_revoc("holder", &blinded, &bproof, &nonce, &inonce, &known_vals, &cd.pk, &cd.sk, idx, l, false, &mut rc.reg, &rc.key_priv).map_err(e)?;
        let reg_at_issue = rc.reg.clone();
        let mut sig = sig_raw.try_clone().map_err(e)?;
        Prover::process_credential_signature(&mut sig, &all_vals, &sproof, &factors, &cd.pk, &inonce, Some(&rc.key_pub), Some(&reg_at_issue), Some(&witness)).map_err(e)?;
        let d_rev2 = Issuer::revoke_credential(&mut rc.reg, l, 2, &cd.pk, &rc.key_priv).map_err(e)?;
        let gamma = vf::GroupOrderElement::from_string(&rc.gamma_hex()).map_err(e)?;
        // valid set at issuance {2, 3}: witness of 3 is tail L+1-2+3
        let witness_exp = vf::tail_index_pow(l + 1 - 2 + idx, &gamma).map_err(e)?.to_string().map_err(e)?;

        let mut rc_bd = RegCtx::new(cd, 4, true)?;
        let d_bd_rev = Issuer::revoke_credential(&mut rc_bd.reg, 4, 2, &cd.pk, &rc_bd.key_priv).map_err(e)?;

        let req = ReqSpec {
            revealed: vec!["name".into()],
            predicates: vec![PredSpec { attr: "age".into(), ptype: "GE".into(), value: 18 }, PredSpec { attr: "height".into(), ptype: "LE".into(), value: 200 }],
        };
        let sreq = req.build()?;
        let mut pb = Prover::new_proof_builder().map_err(e)?;
        pb.add_common_attribute("master_secret").map_err(e)?;
        pb.add_sub_proof_request(&sreq, &cd.schema, &cd.non_schema, &sig, &all_vals, &cd.pk, Some(&reg_at_issue), Some(&witness)).map_err(e)?;
        let nonce_nr = new_nonce().map_err(e)?;
        let proof_nr = pb.finalize(&nonce_nr).map_err(e)?;
        {
            let mut pv = Verifier::new_proof_verifier().map_err(e)?;
            pv.add_common_attribute("master_secret").map_err(e)?;
            pv.add_sub_proof_request(&sreq, &cd.schema, &cd.non_schema, &cd.pk, Some(&rc.key_pub), Some(&reg_at_issue)).map_err(e)?;
            if !pv.verify(&proof_nr, &nonce_nr).map_err(e)? {
                return Err("c20 world: honest non-revocation proof does not verify".into());
            }
        }
        // primary-only presentations shared with the C01/C02 machinery (model `verify` lines)
        let mut scenarios = vec![];
        for want in [1usize, 2] {
            let sc = loop {
                let sc = pres::random_scenario(&pool, rng, true)?;
                let np: usize = sc.reqs.iter().map(|r| r.predicates.len()).sum();
                let nr: usize = sc.reqs.iter().map(|r| r.revealed.len()).sum();
                if np >= 1 && np <= 3 && nr >= 1 && sc.held.len() == want {
                    break sc;
                }
            };
            let (_adds, p) = pres::prove(&pool, &sc);
            let p = match p {
                Out::Ok(p) => p,
                o => return Err(format!("c20 world: honest proof not built: {} {}", o.tag(), o.msg())),
            };
            if !matches!(pres::verify(&pool, &sc, &p, &sc.nonce), Out::Ok(true)) {
                return Err("c20 world: honest primary proof does not verify".into());
            }
            scenarios.push((sc, p));
        }
        let pkj = jv(&cd.pk);
        let consts = Consts::new(pkj["p_key"]["n"].as_str().unwrap_or("0"), rng);
        let g_dash = vf::PointG2::from_string(pkj["r_key"]["g_dash"].as_str().unwrap_or("")).map_err(e)?;
        let g_dash_hex = hex(&g_dash.to_bytes().map_err(e)?);

        let mut merged = d2.clone().ok_or("no delta")?;
        merged.merge(d3.as_ref().ok_or("no delta")?).map_err(e)?;
        let mut bases = vec![
            Base::of(Ty::PubKey, 0, &cd.pk),
            Base::of(Ty::PubKey, 1, &pool.get("pqr_norev").pk),
            Base::of(Ty::KeyProof, 0, &cd.kcp),
            Base::of(Ty::Blinded, 0, &blinded),
            Base::of(Ty::BlindedProof, 0, &bproof),
            Base::of(Ty::Signature, 0, &sig_raw),
            Base::of(Ty::SigProof, 0, &sproof),
            Base::of(Ty::Witness, 0, &witness),
            Base::of(Ty::Registry, 0, &reg_at_issue),
            Base::of(Ty::Delta, 0, d3.as_ref().ok_or("no delta")?),
            Base::of(Ty::Delta, 1, &d_rev2),
            Base::of(Ty::Delta, 2, &merged),
            Base::of(Ty::Delta, 3, &RevocationRegistryDelta::from(&reg_at_issue)),
            Base::of(Ty::Delta, 4, &d_bd_rev),
            Base::of(Ty::RevKeyPub, 0, &rc.key_pub),
            Base::of(Ty::Tail, 0, &tails_vec[3]),
            Base::of(Ty::ProofNonRevoc, 0, &proof_nr),
            Base::of(Ty::Nonce, 0, &nonce),
            Base::of(Ty::Values, 0, &all_vals),
            Base::of(Ty::Values, 1, &hidden_vals),
        ];
        for (k, (_, p)) in scenarios.iter().enumerate() {
            bases.push(Base::of(Ty::ProofPrimary, k, p));
        }
        // SubProofRequest is Deserialize-only: the honest document is written by hand
        bases.push(Base {
            ty: Ty::SubProofReq,
            inst: 0,
            json: json!({"revealed_attrs": ["name"], "predicates": [{"attr_name": "age", "p_type": "GE", "value": 18}, {"attr_name": "height", "p_type": "LE", "value": 200}]}),
            named: None,
            positional: Some(json!([["name"], [["age", "GE", 18], ["height", "LE", 200]]])),
        });
        Ok(World {
            pool, consts, known_vals, hidden_vals, all_vals, nonce, inonce, blinded, factors, bproof, l, idx, rc, tails_vec, tails_small, reg_at_issue,
            sig_raw, sig, sproof, witness, witness_exp, d_issue2: d2.ok_or("no delta")?, d_issue3: d3.ok_or("no delta")?, d_rev2, rc_bd, d_bd_rev,
            req, proof_nr, nonce_nr, scenarios, g_dash_hex, bases,
        })
    }
}

// ------------------------------------------------------------------ decoding and driving

enum Enc {
    Tree(Value),
    Text(String),
    Bytes(Vec<u8>),
}

struct Runner<'a> {
    w: &'a World,
    wd: &'a Wd,
    /// model case lines (verify / witness_new / witness_update / merge) produced by this case
    extra: Vec<Value>,
    id: String,
    label: String,
    verify_quota: &'a mut usize,
    reg_quota: &'a mut usize,
}

/// annotation used by the one known finding about registry sizes beyond 2^31
fn ltag(l: u32) -> &'static str {
    if l >= 1u32 << 31 { "max_cred_num>=2^31" } else { "" }
}

const WILD_IDX: [u32; 9] = [0, 1, 6, 7, u32::MAX, u32::MAX - 1, 1 << 31, (1 << 31) - 1, 11];

impl<'a> Runner<'a> {
    fn decode<T: DeserializeOwned>(&self, ty: Ty, enc: &Enc) -> Option<T> {
        let tn = ty.name();
        let (a, b): (Out<T>, Out<T>) = match enc {
            Enc::Tree(v) => {
                let a = self.wd.call(&format!("decode:{}:json", tn), || serde_json::from_value::<T>(v.clone()));
                let bytes = rmp_serde::to_vec(v).unwrap_or_default();
                let b = self.wd.call(&format!("decode:{}:msgpack", tn), || rmp_serde::from_slice::<T>(&bytes));
                (a, b)
            }
            Enc::Text(s) => {
                let a = self.wd.call(&format!("decode:{}:json", tn), || serde_json::from_str::<T>(s));
                let b = self.wd.call(&format!("decode:{}:msgpack", tn), || rmp_serde::from_slice::<T>(s.as_bytes()));
                (a, b)
            }
            Enc::Bytes(x) => {
                let a = self.wd.call(&format!("decode:{}:json", tn), || serde_json::from_slice::<T>(x));
                let b = self.wd.call(&format!("decode:{}:msgpack", tn), || rmp_serde::from_slice::<T>(x));
                (a, b)
            }
        };
        self.wd.note("decode", json!(format!("json:{},msgpack:{}", a.tag(), b.tag())));
        a.ok().or(b.ok())
    }

    // ---- entry points (every library call through `wd.call`)

    fn blind(&self, pk: &CredentialPublicKey, kcp: &CredentialKeyCorrectnessProof, vals: &CredentialValues, nonce: &Nonce) {
        let _ = self.wd.call("Prover::blind_credential_secrets", || Prover::blind_credential_secrets(pk, kcp, vals, nonce));
    }

    fn sign(&self, pk: &CredentialPublicKey, b: &BlindedCredentialSecrets, bp: &BlindedCredentialSecretsCorrectnessProof, nonce: &Nonce, vals: &CredentialValues, rng: &mut Rng) {
        let w = self.w;
        let cd = w.cd();
        let _ = self.wd.call("Issuer::sign_credential", || Issuer::sign_credential("holder", b, bp, nonce, &w.inonce, vals, pk, &cd.sk));
        // with revocation: honest index first, then extreme rev_idx / max_cred_num
        let mut combos: Vec<(u32, u32, bool)> = vec![(4, w.l, false)];
        for _ in 0..2 {
            combos.push(match rng.below(6) {
                0 => (*rng.pick(&WILD_IDX), w.l, rng.chance(1, 2)),
                1 => (1, *rng.pick(&[0u32, u32::MAX, u32::MAX - 1, 1 << 31]), false),
                2 => (*rng.pick(&WILD_IDX), *rng.pick(&[0u32, 1, u32::MAX, 1 << 31]), false),
                3 => (u32::MAX, u32::MAX, false),
                4 => (w.l + 1, w.l, true),
                _ => (0, 0, false),
            });
        }
        for (i, l, bd) in combos {
            let mut reg = w.reg_at_issue.clone();
            let _ = self.wd.call_a("Issuer::sign_credential_with_revoc", ltag(l), || {
                Issuer::sign_credential_with_revoc("holder", b, bp, nonce, &w.inonce, vals, pk, &cd.sk, i, l, bd, &mut reg, &w.rc.key_priv)
            });
        }
    }

    #[allow(clippy::too_many_arguments)]
    fn process(&self, sig: &CredentialSignature, vals: &CredentialValues, sp: &SignatureCorrectnessProof, pk: &CredentialPublicKey, nonce: &Nonce,
               kp: Option<&RevocationKeyPublic>, reg: Option<&RevocationRegistry>, wit: Option<&Witness>) -> Option<CredentialSignature> {
        let w = self.w;
        let mut s = match sig.try_clone() {
            Ok(s) => s,
            Err(_) => return None,
        };
        let r = self.wd.call("Prover::process_credential_signature", || Prover::process_credential_signature(&mut s, vals, sp, &w.factors, pk, nonce, kp, reg, wit));
        if r.is_ok() { Some(s) } else { None }
    }

    #[allow(clippy::too_many_arguments)]
    fn prove(&self, req: &SubProofRequest, sig: &CredentialSignature, vals: &CredentialValues, pk: &CredentialPublicKey, reg: Option<&RevocationRegistry>, wit: Option<&Witness>, nonce: &Nonce) -> Option<Proof> {
        let cd = self.w.cd();
        let mut pb = Prover::new_proof_builder().ok()?;
        let _ = pb.add_common_attribute("master_secret");
        let a = self.wd.call("ProofBuilder::add_sub_proof_request", || pb.add_sub_proof_request(req, &cd.schema, &cd.non_schema, sig, vals, pk, reg, wit));
        if !a.is_ok() {
            return None;
        }
        self.wd.call("ProofBuilder::finalize", || pb.finalize(nonce)).ok()
    }

    #[allow(clippy::too_many_arguments)]
    fn verify_nr(&self, req: &SubProofRequest, pk: &CredentialPublicKey, kp: Option<&RevocationKeyPublic>, reg: Option<&RevocationRegistry>, proof: &Proof, nonce: &Nonce, nreq: usize) {
        let cd = self.w.cd();
        let mut pv = match Verifier::new_proof_verifier() {
            Ok(p) => p,
            Err(_) => return,
        };
        let _ = pv.add_common_attribute("master_secret");
        for _ in 0..nreq {
            let a = self.wd.call("ProofVerifier::add_sub_proof_request", || pv.add_sub_proof_request(req, &cd.schema, &cd.non_schema, pk, kp, reg));
            if !a.is_ok() {
                return;
            }
        }
        let _ = self.wd.call("ProofVerifier::verify", || pv.verify(proof, nonce));
    }

    fn sreq(&self) -> SubProofRequest {
        self.w.req.build().unwrap()
    }

    // ---- per type

    fn drive(&mut self, base: &Base, enc: &Enc, rng: &mut Rng) {
        let w = self.w;
        let cd = w.cd();
        let (kp, reg, wit) = (Some(&w.rc.key_pub), Some(&w.reg_at_issue), Some(&w.witness));
        match base.ty {
            Ty::PubKey => {
                if let Some(pk) = self.decode::<CredentialPublicKey>(base.ty, enc) {
                    self.blind(&pk, &cd.kcp, &w.hidden_vals, &w.nonce);
                    self.process(&w.sig_raw, &w.all_vals, &w.sproof, &pk, &w.inonce, kp, reg, wit);
                    self.prove(&self.sreq(), &w.sig, &w.all_vals, &pk, reg, wit, &w.nonce_nr);
                    self.verify_nr(&self.sreq(), &pk, kp, reg, &w.proof_nr, &w.nonce_nr, 1);
                    let (sc, p) = &w.scenarios[0];
                    // a primary-only proof of another definition against this key
                    let r0 = sc.reqs[0].build().unwrap();
                    let cd0 = w.pool.get(&sc.held[0].cd_name);
                    let mut pv = Verifier::new_proof_verifier().unwrap();
                    for a in &sc.common {
                        let _ = pv.add_common_attribute(a);
                    }
                    if self.wd.call("ProofVerifier::add_sub_proof_request", || pv.add_sub_proof_request(&r0, &cd0.schema, &cd0.non_schema, &pk, None, None)).is_ok() && sc.held.len() == 1 {
                        let _ = self.wd.call("ProofVerifier::verify", || pv.verify(p, &sc.nonce));
                    }
                }
            }
            Ty::KeyProof => {
                if let Some(kcp) = self.decode::<CredentialKeyCorrectnessProof>(base.ty, enc) {
                    self.blind(&cd.pk, &kcp, &w.hidden_vals, &w.nonce);
                    self.blind(&w.pool.get("pqr_norev").pk, &kcp, &w.hidden_vals, &w.nonce);
                }
            }
            Ty::Blinded => {
                if let Some(b) = self.decode::<BlindedCredentialSecrets>(base.ty, enc) {
                    self.sign(&cd.pk, &b, &w.bproof, &w.nonce, &w.known_vals, rng);
                }
            }
            Ty::BlindedProof => {
                if let Some(bp) = self.decode::<BlindedCredentialSecretsCorrectnessProof>(base.ty, enc) {
                    self.sign(&cd.pk, &w.blinded, &bp, &w.nonce, &w.known_vals, rng);
                }
            }
            Ty::Nonce => {
                if let Some(n) = self.decode::<Nonce>(base.ty, enc) {
                    self.blind(&cd.pk, &cd.kcp, &w.hidden_vals, &n);
                    let _ = self.wd.call("Issuer::sign_credential", || Issuer::sign_credential("holder", &w.blinded, &w.bproof, &n, &w.inonce, &w.known_vals, &cd.pk, &cd.sk));
                    self.process(&w.sig_raw, &w.all_vals, &w.sproof, &cd.pk, &n, kp, reg, wit);
                    self.prove(&self.sreq(), &w.sig, &w.all_vals, &cd.pk, reg, wit, &n);
                    self.verify_nr(&self.sreq(), &cd.pk, kp, reg, &w.proof_nr, &n, 1);
                }
            }
            Ty::Signature => {
                if let Some(s) = self.decode::<CredentialSignature>(base.ty, enc) {
                    let _ = self.wd.call("CredentialSignature::extract_index", || Ok::<_, Error>(s.extract_index()));
                    let done = self.process(&s, &w.all_vals, &w.sproof, &cd.pk, &w.inonce, kp, reg, wit);
                    self.process(&s, &w.all_vals, &w.sproof, &cd.pk, &w.inonce, None, None, None);
                    // the holder may also be handed a stored (already processed) signature
                    let use_sig = done.unwrap_or(s);
                    self.prove(&self.sreq(), &use_sig, &w.all_vals, &cd.pk, reg, wit, &w.nonce_nr);
                }
            }
            Ty::SigProof => {
                if let Some(sp) = self.decode::<SignatureCorrectnessProof>(base.ty, enc) {
                    self.process(&w.sig_raw, &w.all_vals, &sp, &cd.pk, &w.inonce, kp, reg, wit);
                }
            }
            Ty::Witness => {
                if let Some(wt) = self.decode::<Witness>(base.ty, enc) {
                    self.process(&w.sig_raw, &w.all_vals, &w.sproof, &cd.pk, &w.inonce, kp, reg, Some(&wt));
                    if let Some(p) = self.prove(&self.sreq(), &w.sig, &w.all_vals, &cd.pk, reg, Some(&wt), &w.nonce_nr) {
                        self.verify_nr(&self.sreq(), &cd.pk, kp, reg, &p, &w.nonce_nr, 1);
                    }
                    let mut w2 = wt.clone();
                    let _ = self.wd.call("Witness::update", || w2.update(w.idx, w.l, &w.d_rev2, &w.rc.tails));
                    let mut w3 = wt.clone();
                    let _ = self.wd.call("Witness::update", || w3.update(w.idx, w.l, &w.d_rev2, &w.tails_small));
                }
            }
            Ty::Registry => {
                if let Some(r) = self.decode::<RevocationRegistry>(base.ty, enc) {
                    self.process(&w.sig_raw, &w.all_vals, &w.sproof, &cd.pk, &w.inonce, kp, Some(&r), wit);
                    self.prove(&self.sreq(), &w.sig, &w.all_vals, &cd.pk, Some(&r), wit, &w.nonce_nr);
                    self.verify_nr(&self.sreq(), &cd.pk, kp, Some(&r), &w.proof_nr, &w.nonce_nr, 1);
                    let d = self.wd.call("RevocationRegistryDelta::from", || Ok::<_, Error>(RevocationRegistryDelta::from(&r)));
                    if let Out::Ok(d) = d {
                        let _ = self.wd.call("Witness::new", || Witness::new(w.idx, w.l, false, &d, &w.rc.tails));
                    }
                    let mut r2 = r.clone();
                    let _ = self.wd.call("Issuer::revoke_credential", || Issuer::revoke_credential(&mut r2, w.l, 2, &cd.pk, &w.rc.key_priv));
                    let mut r3 = r.clone();
                    let _ = self.wd.call("Issuer::sign_credential_with_revoc", || {
                        Issuer::sign_credential_with_revoc("holder", &w.blinded, &w.bproof, &w.nonce, &w.inonce, &w.known_vals, &cd.pk, &cd.sk, 4, w.l, false, &mut r3, &w.rc.key_priv)
                    });
                }
            }
            Ty::RevKeyPub => {
                if let Some(k) = self.decode::<RevocationKeyPublic>(base.ty, enc) {
                    self.process(&w.sig_raw, &w.all_vals, &w.sproof, &cd.pk, &w.inonce, Some(&k), reg, wit);
                    self.verify_nr(&self.sreq(), &cd.pk, Some(&k), reg, &w.proof_nr, &w.nonce_nr, 1);
                }
            }
            Ty::Tail => {
                if let Some(t) = self.decode::<Tail>(base.ty, enc) {
                    let _ = self.wd.call("Tail::to_string", || t.to_string());
                    let _ = self.wd.call("Tail::to_bytes", || t.to_bytes());
                    let acc = VecTails(vec![t; w.tails_vec.len()]);
                    let _ = self.wd.call("Witness::new", || Witness::new(w.idx, w.l, false, &w.d_issue3, &acc));
                    let mut w2 = w.witness.clone();
                    let _ = self.wd.call("Witness::update", || w2.update(w.idx, w.l, &w.d_rev2, &acc));
                    if let Out::Ok(wn) = self.wd.call("Witness::new", || Witness::new(2, 4, true, &w.d_bd_rev, &acc)) {
                        self.prove(&self.sreq(), &w.sig, &w.all_vals, &cd.pk, reg, Some(&wn), &w.nonce_nr);
                    }
                }
            }
            Ty::Values => {
                if let Some(v) = self.decode::<CredentialValues>(base.ty, enc) {
                    self.blind(&cd.pk, &cd.kcp, &v, &w.nonce);
                    let _ = self.wd.call("Issuer::sign_credential", || Issuer::sign_credential("holder", &w.blinded, &w.bproof, &w.nonce, &w.inonce, &v, &cd.pk, &cd.sk));
                    self.process(&w.sig_raw, &v, &w.sproof, &cd.pk, &w.inonce, kp, reg, wit);
                    self.prove(&self.sreq(), &w.sig, &v, &cd.pk, reg, wit, &w.nonce_nr);
                    let _ = self.wd.call("CredentialValues::merge", || v.merge(&w.known_vals));
                }
            }
            Ty::SubProofReq => {
                if let Some(q) = self.decode::<SubProofRequest>(base.ty, enc) {
                    if let Some(p) = self.prove(&q, &w.sig, &w.all_vals, &cd.pk, reg, wit, &w.nonce_nr) {
                        self.verify_nr(&q, &cd.pk, kp, reg, &p, &w.nonce_nr, 1);
                    }
                    self.verify_nr(&q, &cd.pk, kp, reg, &w.proof_nr, &w.nonce_nr, 1);
                }
            }
            Ty::ProofNonRevoc => {
                if let Some(p) = self.decode::<Proof>(base.ty, enc) {
                    self.proof_accessors(&p);
                    self.verify_nr(&self.sreq(), &cd.pk, kp, reg, &p, &w.nonce_nr, 1);
                    // verifier without registry, and mismatching numbers of requests
                    self.verify_nr(&self.sreq(), &cd.pk, None, None, &p, &w.nonce_nr, 1);
                    let n = *rng.pick(&[0usize, 2, 3]);
                    self.verify_nr(&self.sreq(), &cd.pk, kp, reg, &p, &w.nonce_nr, n);
                    // legacy acceptance switch
                    let mut pv = Verifier::new_proof_verifier().unwrap();
                    pv.accept_legacy_revocation(true);
                    let _ = pv.add_common_attribute("master_secret");
                    let q = self.sreq();
                    if self.wd.call("ProofVerifier::add_sub_proof_request", || pv.add_sub_proof_request(&q, &cd.schema, &cd.non_schema, &cd.pk, kp, reg)).is_ok() {
                        let _ = self.wd.call("ProofVerifier::verify(legacy)", || pv.verify(&p, &w.nonce_nr));
                    }
                }
            }
            Ty::ProofPrimary => {
                if let Some(p) = self.decode::<Proof>(base.ty, enc) {
                    self.proof_accessors(&p);
                    let (sc, _) = &w.scenarios[base.inst];
                    let res = self.wd.call("ProofVerifier::verify", || match pres::verify(&w.pool, sc, &p, &sc.nonce) {
                        Out::Ok(b) => Ok(b),
                        Out::Err(m) => Err(m),
                        Out::Panic(m) => std::panic::panic_any(m),
                    });
                    if *self.verify_quota > 0 {
                        *self.verify_quota -= 1;
                        let implv = match &res {
                            Out::Ok(b) => json!({"status": "ok", "valid": b, "oracles": []}),
                            o => json!({"status": o.tag(), "msg": trunc(&o.msg(), 200), "oracles": []}),
                        };
                        let nonce_dec = sc.nonce.to_dec().unwrap_or_default();
                        self.extra.push(pres::verify_case(&format!("{}/verify", self.id), &w.pool, sc, &jv(&p), &nonce_dec, implv,
                            json!({"alteration": self.label.split(": ").last().unwrap_or(""), "ncred": sc.held.len()})));
                    }
                    // mismatching number of requests: one request too few / too many
                    let mut pv = Verifier::new_proof_verifier().unwrap();
                    let mut ok = true;
                    let extra = rng.chance(1, 2);
                    for (k, (h, r)) in sc.held.iter().zip(sc.reqs.iter()).enumerate() {
                        if !extra && k + 1 == sc.held.len() {
                            break;
                        }
                        let cdk = w.pool.get(&h.cd_name);
                        let q = r.build().unwrap();
                        for _ in 0..(if extra && k == 0 { 2 } else { 1 }) {
                            ok &= self.wd.call("ProofVerifier::add_sub_proof_request", || pv.add_sub_proof_request(&q, &cdk.schema, &cdk.non_schema, &cdk.pk, None, None)).is_ok();
                        }
                    }
                    if ok {
                        let _ = self.wd.call("ProofVerifier::verify(request count mismatch)", || pv.verify(&p, &sc.nonce));
                    }
                }
            }
            Ty::Delta => {
                if let Some(d) = self.decode::<RevocationRegistryDelta>(base.ty, enc) {
                    self.drive_delta(&d, rng);
                }
            }
        }
    }

    fn proof_accessors(&self, p: &Proof) {
        for sp in p.proofs.iter().take(3) {
            let _ = self.wd.call("SubProof::revealed_attrs", || sp.revealed_attrs());
            let _ = self.wd.call("SubProof::predicates", || Ok::<_, Error>(sp.predicates()));
        }
    }

    fn drive_delta(&mut self, d: &RevocationRegistryDelta, rng: &mut Rng) {
        let w = self.w;
        let dj = delta_json(d);
        let sets = json!({"issued": dj["issued"], "revoked": dj["revoked"]});
        let model = *self.reg_quota > 0;
        if model {
            *self.reg_quota -= 1;
        }
        let wit_canon = |wt: &Witness| jv(wt)["omega"].as_str().map(g2_canon).unwrap_or_default();
        // Witness::new: honest holder index and extreme ones, both issuance modes, matching tails
        let mut is: Vec<u32> = vec![w.idx, 2];
        is.push(*rng.pick(&WILD_IDX));
        for (n, i) in is.iter().enumerate() {
            for bd in [false, true] {
                let r = self.wd.call("Witness::new", || Witness::new(*i, w.l, bd, d, &w.rc.tails));
                if model {
                    self.extra.push(json!({"id": format!("{}/wn{}{}", self.id, n, bd as u8), "op": "witness_new",
                        "in": {"L": w.l, "by_default": bd, "gamma": w.rc.gamma_hex(), "mode": mode_str(), "i": i, "delta": sets},
                        "impl": {"status": r.tag(), "omega": r.clone().ok().map(|x| wit_canon(&x)), "g_dash": w.g_dash_hex},
                        "class": {"what": "witness_new", "mutation": self.label.split(": ").last().unwrap_or("")}}));
                }
            }
        }
        // tails stored for a smaller registry, and extreme max_cred_num (on-demand only: by-default enumerates 1..=max_cred_num)
        let _ = self.wd.call("Witness::new(smaller tails)", || Witness::new(w.idx, w.l, false, d, &w.tails_small));
        let _ = self.wd.call("Witness::new(smaller tails)", || Witness::new(1, 4, true, d, &w.tails_small));
        let big = *rng.pick(&[u32::MAX, u32::MAX - 1, 1u32 << 31, (1u32 << 31) - 1]);
        let ib = *rng.pick(&[1u32, 5, big]);
        let _ = self.wd.call_a("Witness::new", ltag(big), || Witness::new(ib, big, false, d, &w.rc.tails));
        // Witness::update from the honest witness of the holder
        for (n, i) in [w.idx, *rng.pick(&WILD_IDX)].iter().enumerate() {
            let mut wt = w.witness.clone();
            let r = self.wd.call("Witness::update", || wt.update(*i, w.l, d, &w.rc.tails));
            if model {
                self.extra.push(json!({"id": format!("{}/wu{}", self.id, n), "op": "witness_update",
                    "in": {"L": w.l, "gamma": w.rc.gamma_hex(), "mode": mode_str(), "i": i, "omega": w.witness_exp, "delta": sets},
                    "impl": {"status": r.tag(), "omega": wit_canon(&wt), "g_dash": w.g_dash_hex},
                    "class": {"what": "witness_update", "mutation": self.label.split(": ").last().unwrap_or("")}}));
            }
        }
        let mut wt = w.witness.clone();
        let _ = self.wd.call("Witness::update(smaller tails)", || wt.update(w.idx, w.l, d, &w.tails_small));
        let mut wt = w.witness.clone();
        let _ = self.wd.call_a("Witness::update", ltag(big), || wt.update(ib, big, d, &w.rc.tails));
        // merge in both directions with honest neighbours
        for (n, (a, b)) in [(&w.d_issue2, d), (d, &w.d_rev2), (d, d)].iter().enumerate() {
            let mut m = (*a).clone();
            let r = self.wd.call("RevocationRegistryDelta::merge", || m.merge(b));
            if model {
                self.extra.push(json!({"id": format!("{}/merge{}", self.id, n), "op": "merge",
                    "in": {"d1": delta_json(a), "d2": delta_json(b)},
                    "impl": {"status": r.tag(), "msg": trunc(&r.msg(), 120), "result": delta_json(&m), "target_before": delta_json(a), "consecutive": false},
                    "class": {"what": "merge", "mutation": self.label.split(": ").last().unwrap_or("")}}));
            }
        }
        let _ = self.wd.call("RevocationRegistry::from(delta)", || Ok::<_, Error>(RevocationRegistry::from(d.clone())));
    }

    /// calls whose counterparty-controlled argument is an index / size rather than a document
    fn drive_api(&mut self, k: usize, rng: &mut Rng) -> String {
        let w = self.w;
        let cd = w.cd();
        let pick_l = |rng: &mut Rng| *rng.pick(&[w.l, w.l, 0u32, 1, u32::MAX, u32::MAX - 1, 1 << 31, (1 << 31) - 1]);
        match k % API_KINDS {
            0 => {
                let (i, l) = (*rng.pick(&WILD_IDX), pick_l(rng));
                let mut r = w.reg_at_issue.clone();
                let _ = self.wd.call_a("Issuer::revoke_credential", ltag(l), || Issuer::revoke_credential(&mut r, l, i, &cd.pk, &w.rc.key_priv));
                format!("revoke rev_idx={} max_cred_num={}", i, l)
            }
            1 => {
                let (i, l) = (*rng.pick(&WILD_IDX), pick_l(rng));
                let mut r = w.reg_at_issue.clone();
                let _ = self.wd.call_a("Issuer::unrevoke_credential", ltag(l), || Issuer::unrevoke_credential(&mut r, l, i, &cd.pk, &w.rc.key_priv));
                format!("unrevoke rev_idx={} max_cred_num={}", i, l)
            }
            2 => {
                let l = pick_l(rng);
                let mut iss = BTreeSet::new();
                let mut rev = BTreeSet::new();
                for _ in 0..rng.below(4) {
                    iss.insert(if rng.chance(1, 2) { *rng.pick(&WILD_IDX) } else { 1 + rng.below(5) as u32 });
                }
                for _ in 0..rng.below(4) {
                    rev.insert(if rng.chance(1, 2) { *rng.pick(&WILD_IDX) } else { 1 + rng.below(5) as u32 });
                }
                let what = format!("update issued={:?} revoked={:?} max_cred_num={}", iss, rev, l);
                let mut r = w.reg_at_issue.clone();
                let _ = self.wd.call_a("Issuer::update_revocation_registry", ltag(l), || Issuer::update_revocation_registry(&mut r, l, iss, rev, &cd.pk, &w.rc.key_priv));
                what
            }
            3 => {
                let l = pick_l(rng);
                let mut iss = BTreeSet::new();
                for _ in 0..(1 + rng.below(4)) {
                    iss.insert(if rng.chance(1, 2) { *rng.pick(&WILD_IDX) } else { 1 + rng.below(5) as u32 });
                }
                let what = format!("for_issued {:?} max_cred_num={}", iss, l);
                let _ = self.wd.call_a("RevocationRegistry::for_issued", ltag(l), || RevocationRegistry::for_issued(&cd.pk, &w.rc.key_priv, l, &iss));
                what
            }
            4 => {
                let (i, l) = (*rng.pick(&WILD_IDX), pick_l(rng));
                let _ = self.wd.call_a("Witness::new", ltag(l), || Witness::new(i, l, false, &w.d_issue3, &w.rc.tails));
                let mut wt = w.witness.clone();
                let _ = self.wd.call_a("Witness::update", ltag(l), || wt.update(i, l, &w.d_rev2, &w.rc.tails));
                // by-default issuance enumerates 1..=max_cred_num: only registry-sized values here
                let _ = self.wd.call("Witness::new", || Witness::new(i, w.l.min(l), true, &w.d_bd_rev, &w.rc.tails));
                format!("witness rev_idx={} max_cred_num={}", i, l)
            }
            5 => {
                let l = *rng.pick(&[0u32, 1, (1 << 31) - 1, 1 << 31, u32::MAX, u32::MAX - 1]);
                let _ = self.wd.call_a("Issuer::revocation_tails_generator", ltag(l), || {
                    let mut g = Issuer::revocation_tails_generator(&cd.pk, &w.rc.key_priv, l)?;
                    let _ = g.count();
                    g.try_next().map(|_| g.count())
                });
                format!("tails generator max_cred_num={}", l)
            }
            7 => {
                // a counterparty's sub-proof request against a holder (and a verifier) that declared common attributes:
                // overlapping revealed / predicate / common names, names outside the schema, non-schema names
                let pool = ["name", "age", "sex", "height", "master_secret", "nonexistent"];
                let sub = k / API_KINDS;
                let grid: [(&[&str], &[&str], &[&str]); 11] = [
                    (&["age"], &["age"], &["age"]), (&["age"], &["age"], &["master_secret"]), (&["name", "age"], &["age"], &["name"]),
                    (&[], &["age"], &["age"]), (&["age"], &[], &["age"]), (&["master_secret"], &[], &["master_secret"]),
                    (&[], &["master_secret"], &["master_secret"]), (&["nonexistent"], &[], &["nonexistent"]), (&[], &["nonexistent"], &["nonexistent"]),
                    (&["name"], &["name"], &["name"]), (&["age"], &["age", "age"], &["age", "name"])];
                let (rv, pr, cm): (Vec<String>, Vec<String>, Vec<String>) = if sub < grid.len() {
                    let g = grid[sub];
                    (g.0.iter().map(|s| s.to_string()).collect(), g.1.iter().map(|s| s.to_string()).collect(), g.2.iter().map(|s| s.to_string()).collect())
                } else {
                    let mut pickn = |rng: &mut Rng| { let n = rng.below(3); (0..n).map(|_| rng.pick(&pool).to_string()).collect::<Vec<_>>() };
                    (pickn(rng), pickn(rng), pickn(rng))
                };
                let spec = ReqSpec { revealed: rv.clone(), predicates: pr.iter().enumerate().map(|(n, a)| PredSpec { attr: a.clone(), ptype: ["GE", "LE", "GT", "LT"][n % 4].into(), value: 18 + n as i32 }).collect() };
                let what = format!("request revealed={:?} predicates={:?} common={:?}", rv, pr, cm);
                if let Ok(req) = spec.build() {
                    let (reg, wit) = (Some(&w.reg_at_issue), Some(&w.witness));
                    if let Ok(mut pb) = Prover::new_proof_builder() {
                        for c in &cm { let _ = self.wd.call("ProofBuilder::add_common_attribute", || pb.add_common_attribute(c)); }
                        let a = self.wd.call("ProofBuilder::add_sub_proof_request", || pb.add_sub_proof_request(&req, &cd.schema, &cd.non_schema, &w.sig, &w.all_vals, &cd.pk, reg, wit));
                        if a.is_ok() {
                            if let Some(proof) = self.wd.call("ProofBuilder::finalize", || pb.finalize(&w.nonce_nr)).ok() {
                                if let Ok(mut pv) = Verifier::new_proof_verifier() {
                                    for c in &cm { let _ = self.wd.call("ProofVerifier::add_common_attribute", || pv.add_common_attribute(c)); }
                                    let a = self.wd.call("ProofVerifier::add_sub_proof_request", || pv.add_sub_proof_request(&req, &cd.schema, &cd.non_schema, &cd.pk, Some(&w.rc.key_pub), reg));
                                    if a.is_ok() { let _ = self.wd.call("ProofVerifier::verify", || pv.verify(&proof, &w.nonce_nr)); }
                                }
                            }
                        }
                    }
                }
                what
            }
            8 => {
                // verifier-chosen predicate thresholds that put the difference to the credential's value just below a perfect
                // square above 2^24 (where a single-precision square root is off by one) or at the ends of the 32-bit range
                let sub = k / API_KINDS;
                let roots: [i64; 5] = [4097, 5793, 10000, 40000, 46340];
                let age: i64 = 28;
                let (ptype, thr): (&str, i64) = match sub % 12 {
                    n @ 0..=4 => ("GE", age - (roots[n] * roots[n] - 1)),
                    n @ 5..=9 => ("LE", age + (roots[n - 5] * roots[n - 5] - 1)),
                    10 => ("GE", i32::MIN as i64),
                    _ => ("LE", i32::MAX as i64),
                };
                let spec = ReqSpec { revealed: vec!["name".into()], predicates: vec![PredSpec { attr: "age".into(), ptype: ptype.into(), value: thr as i32 }] };
                let what = format!("request predicate age {} {} (credential value {})", ptype, thr, age);
                if let Ok(req) = spec.build() {
                    let (reg, wit) = (Some(&w.reg_at_issue), Some(&w.witness));
                    if let Ok(mut pb) = Prover::new_proof_builder() {
                        let _ = pb.add_common_attribute("master_secret");
                        let a = self.wd.call("ProofBuilder::add_sub_proof_request", || pb.add_sub_proof_request(&req, &cd.schema, &cd.non_schema, &w.sig, &w.all_vals, &cd.pk, reg, wit));
                        if a.is_ok() {
                            if let Some(proof) = self.wd.call("ProofBuilder::finalize", || pb.finalize(&w.nonce_nr)).ok() {
                                if let Ok(mut pv) = Verifier::new_proof_verifier() {
                                    let _ = pv.add_common_attribute("master_secret");
                                    let a = self.wd.call("ProofVerifier::add_sub_proof_request", || pv.add_sub_proof_request(&req, &cd.schema, &cd.non_schema, &cd.pk, Some(&w.rc.key_pub), reg));
                                    if a.is_ok() { let _ = self.wd.call("ProofVerifier::verify", || pv.verify(&proof, &w.nonce_nr)); }
                                }
                            }
                        }
                    }
                }
                what
            }
            _ => {
                let (i, l, bd) = (*rng.pick(&WILD_IDX), pick_l(rng), rng.chance(1, 3));
                let mut r = w.reg_at_issue.clone();
                let _ = self.wd.call_a("Issuer::sign_credential_with_revoc", ltag(l), || {
                    Issuer::sign_credential_with_revoc("holder", &w.blinded, &w.bproof, &w.nonce, &w.inonce, &w.known_vals, &cd.pk, &cd.sk, i, l, bd, &mut r, &w.rc.key_priv)
                });
                format!("sign_with_revoc rev_idx={} max_cred_num={} by_default={}", i, l, bd)
            }
        }
    }
}

// ------------------------------------------------------------------ plans

#[derive(Clone, Debug)]
enum Plan {
    Doc { base: usize, shape: Shape, muts: Vec<Mutn> },
    Raw { base: usize, kind: usize },
    Api(usize),
}

const RAW_KINDS: usize = 12;
const API_KINDS: usize = 9;

/// the fixed part of the stream: every single structural mutation of every honest document in
/// JSON text form, the regression inputs of repaired defects on every scalar / point leaf, the
/// root-level structural mutations of the two MessagePack forms, raw damage and index calls
fn systematic(w: &World) -> Vec<Plan> {
    let mut out = vec![];
    for (bi, b) in w.bases.iter().enumerate() {
        if b.ty == Ty::PubKey && b.inst == 1 {
            continue;
        }
        if b.ty == Ty::Delta && b.inst >= 2 && b.inst != 3 {
            continue;
        }
        let mut nodes = vec![];
        collect(&b.json, &mut vec![], &mut nodes);
        for (p, n) in &nodes {
            let v = node_at(&b.json, p).unwrap();
            match n {
                Node::Map | Node::Arr => {
                    for m in structural(p, v) {
                        out.push(Plan::Doc { base: bi, shape: Shape::Json, muts: vec![m] });
                    }
                }
                Node::Str => {
                    let kind = leaf_kind(p, v, *n);
                    let mut rng = Rng::new(7);
                    let wanted: &[&str] = match kind {
                        Leaf::Scalar => &["scalar=empty string", "scalar=non-hex text", "scalar=over-long 72 hex digits", "scalar=over-long 100 hex digits", "scalar=0", "scalar=r", "scalar=non-ascii"],
                        Leaf::Point(_) => &["point=zero excess at *", "point=excess index i32::MAX+1", "point=excess index u32::MAX", "point=excess index i32::MAX", "point=excess index 2^30", "point=identity",
                                             "point=coordinate 100 hex digits", "point=coordinate 1000 hex digits", "point=coordinate non-hex", "point=empty string",
                                             "point=all coordinates lengthened to *", "point=coordinates 0,1 lengthened to 71*", "point=coordinates 0..3 lengthened to 71 digits 7F*"],
                        Leaf::BigNum => &["bn=0", "bn=-1", "bn=empty string", "bn=NUL inside"],
                        _ => &[],
                    };
                    // the position mutated inside a point string is drawn at random: fix it by retrying
                    for want in wanted {
                        let wild = want.ends_with('*');
                        for (l, nv, hp) in leaf_candidates(kind, v, &w.consts, &mut rng) {
                            if l == *want || (wild && l.starts_with(&want[..want.len() - 1])) {
                                out.push(Plan::Doc { base: bi, shape: Shape::Json, muts: vec![Mutn { path: p.clone(), op: Op::Set(nv), kind: l, hang_prone: hp }] });
                                if !wild { break; }
                            }
                        }
                    }
                }
                _ => {}
            }
        }
        for shape in [Shape::Named, Shape::Positional] {
            if let Some(t) = b.tree(shape) {
                for m in structural(&vec![], t) {
                    out.push(Plan::Doc { base: bi, shape, muts: vec![m] });
                }
            }
        }
        for kind in 0..RAW_KINDS {
            out.push(Plan::Raw { base: bi, kind });
        }
    }
    for k in 0..(API_KINDS * 12) {
        out.push(Plan::Api(k));
    }
    out
}

fn random_plan(w: &World, rng: &mut Rng, allow_hang: bool) -> Plan {
    let roll = rng.below(100);
    if roll < 5 {
        return Plan::Api(rng.below(1000) as usize);
    }
    // weights: proofs 3, key / signature / blinded-secrets proof 2, others 1
    let mut pool: Vec<usize> = vec![];
    for (i, b) in w.bases.iter().enumerate() {
        let wgt = match b.ty {
            Ty::ProofPrimary | Ty::ProofNonRevoc => 3,
            Ty::PubKey | Ty::Signature | Ty::BlindedProof | Ty::Blinded => 2,
            _ => 1,
        };
        for _ in 0..wgt {
            pool.push(i);
        }
    }
    let base = *rng.pick(&pool);
    if roll < 10 {
        return Plan::Raw { base, kind: rng.below(RAW_KINDS as u64) as usize };
    }
    let b = &w.bases[base];
    let shape = match rng.below(100) {
        0..=59 => Shape::Json,
        60..=81 => Shape::Named,
        _ => Shape::Positional,
    };
    let shape = if b.tree(shape).is_some() { shape } else { Shape::Json };
    let mut tree = b.tree(shape).unwrap().clone();
    let n = if rng.chance(1, 5) { 2 } else { 1 };
    let mut muts = vec![];
    for _ in 0..n {
        if let Some(m) = random_mutation(&tree, &w.consts, rng, allow_hang) {
            apply(&mut tree, &m);
            muts.push(m);
        }
    }
    Plan::Doc { base, shape, muts }
}

fn raw_damage(b: &Base, kind: usize, rng: &mut Rng) -> (String, Enc) {
    let text = serde_json::to_string(&b.json).unwrap();
    let bytes = rmp_serde::to_vec(b.positional.as_ref().unwrap_or(&b.json)).unwrap_or_default();
    match kind {
        0 => {
            let mut cut = rng.below(text.len() as u64 + 1) as usize;
            while !text.is_char_boundary(cut) {
                cut -= 1;
            }
            ("json text truncated".into(), Enc::Text(text[..cut].to_string()))
        }
        1 => {
            let mut bts = text.into_bytes();
            for _ in 0..(1 + rng.below(3)) {
                let i = rng.below(bts.len() as u64) as usize;
                bts[i] = *rng.pick(&[b'"', b'{', b'}', b'[', b']', b',', b':', b'\\', b'0', b'-', b' ', 0u8, 0xff, b'e']);
            }
            ("json text with damaged bytes".into(), Enc::Bytes(bts))
        }
        2 => ("json text: 100000 nested arrays".into(), Enc::Text("[".repeat(100000))),
        3 => ("json text: 100000 nested maps".into(), Enc::Text("{\"a\":".repeat(100000))),
        4 => {
            let cut = rng.below(bytes.len() as u64 + 1) as usize;
            ("msgpack bytes truncated".into(), Enc::Bytes(bytes[..cut].to_vec()))
        }
        5 => {
            let mut bts = bytes;
            for _ in 0..(1 + rng.below(3)) {
                if !bts.is_empty() {
                    let i = rng.below(bts.len() as u64) as usize;
                    bts[i] = if rng.chance(1, 2) { rng.next() as u8 } else { *rng.pick(&[0xc0u8, 0xc1, 0xdc, 0xdd, 0xde, 0xdf, 0xc6, 0xdb, 0xd9, 0x90, 0x80, 0xff, 0xcf, 0xd3, 0xcb]) };
                }
            }
            ("msgpack bytes damaged".into(), Enc::Bytes(bts))
        }
        6 => {
            let mut bts = vec![0x91u8; 100000];
            bts.push(0xc0);
            ("msgpack: 100000 nested arrays".into(), Enc::Bytes(bts))
        }
        7 => {
            let hdr = *rng.pick(&[0xddu8, 0xdf, 0xdb, 0xc6]);
            let mut bts = vec![hdr, 0xff, 0xff, 0xff, 0xff];
            bts.extend_from_slice(&bytes[..bytes.len().min(64)]);
            ("msgpack: 32-bit length header 0xffffffff".into(), Enc::Bytes(bts))
        }
        8 => ("random bytes".into(), Enc::Bytes(rng.bytes(64))),
        9 => ("empty input".into(), Enc::Bytes(vec![])),
        10 => {
            // a string literal replaced by a number literal of 5000 digits
            let t = match text.find(":\"") {
                Some(i) => {
                    let j = text[i + 2..].find('"').map(|x| i + 2 + x + 1).unwrap_or(text.len());
                    format!("{}:{}{}", &text[..i], "7".repeat(5000), &text[j..])
                }
                None => "7".repeat(5000),
            };
            ("json text: 5000-digit number literal".into(), Enc::Text(t))
        }
        _ => {
            let t = text.replacen(":\"", ":\"\\ud800", 1);
            ("json text: lone surrogate escape".into(), Enc::Text(t))
        }
    }
}

// ------------------------------------------------------------------ one batch (child process)

fn env_num(name: &str, default: u64) -> u64 {
    std::env::var(name).ok().and_then(|s| s.parse().ok()).unwrap_or(default)
}

fn doc_repr(enc: &Enc) -> Value {
    let v = match enc {
        Enc::Tree(t) => json!({"tree": t}),
        Enc::Text(s) => json!({"text": s}),
        Enc::Bytes(b) => json!({"bytes_hex": hex(b)}),
    };
    let n = serde_json::to_string(&v).map(|s| s.len()).unwrap_or(0);
    if n > 60000 {
        json!(format!("(omitted: {} bytes; regenerate with the seed and case number)", n))
    } else {
        v
    }
}

fn batch(thorough: bool, rng: &mut Rng) -> Result<(), String> {
    let part = env_num("C20_PART", 0) as usize;
    let parts = env_num("C20_PARTS", 1).max(1) as usize;
    let start = env_num("C20_START", part as u64) as usize;
    let count = env_num("C20_COUNT", if thorough { 75000 } else { 1500 }) as usize;
    let budget = Duration::from_millis(env_num("C20_BUDGET_MS", 60000));
    let timeout = Duration::from_millis(env_num("C20_TIMEOUT_MS", if thorough { 60000 } else { 30000 }));
    let cur = std::env::var("C20_CUR").ok().map(PathBuf::from);
    let mut verify_quota = env_num("C20_VERIFY_QUOTA", 15) as usize;
    let mut reg_quota = env_num("C20_REG_QUOTA", 40) as usize;
    let mut hang_quota = env_num("C20_HANG_QUOTA", 4) as usize;
    let t0 = Instant::now();
    let w = World::new(rng)?;
    let case_seed = rng.next();
    let mut sys = systematic(&w);
    // deterministic shuffle: a run that stops early still touches every type
    let mut srng = Rng::new(case_seed ^ 0x5157);
    for i in (1..sys.len()).rev() {
        sys.swap(i, srng.below(i as u64 + 1) as usize);
    }
    // the request grid (a dozen fixed API cases) runs in every tier: keep it at the front
    sys.sort_by_key(|p| !matches!(p, Plan::Api(k) if k % API_KINDS == 7 || k % API_KINDS == 8));
    if part == 0 && start == 0 {
        eprintln!("c20: world built in {} ms, {} honest documents, {} systematic cases, {} cases requested", t0.elapsed().as_millis(), w.bases.len(), sys.len(), count);
    }
    let wd = Wd::start(timeout, cur);
    let mut k = start;
    while k < count {
        if t0.elapsed() > budget {
            eprintln!("c20: part {} stops at case {} (time budget)", part, k);
            break;
        }
        let mut crng = Rng::new(case_seed ^ (k as u64).wrapping_mul(0x9E37_79B9_7F4A_7C15));
        // even case numbers walk through the (shuffled) systematic list, odd ones are random
        let plan = if k % 2 == 0 && k / 2 < sys.len() { sys[k / 2].clone() } else { random_plan(&w, &mut crng, hang_quota > 0) };
        // ---- materialise the plan
        let (ty_name, shape_name, label, kind, enc, base): (String, String, String, String, Option<Enc>, Option<&Base>) = match &plan {
            Plan::Doc { base, shape, muts } => {
                let b = &w.bases[*base];
                let mut tree = b.tree(*shape).unwrap_or(&b.json).clone();
                let mut labels = vec![];
                let mut kinds = vec![];
                for m in muts {
                    apply(&mut tree, m);
                    labels.push(m.label(b.ty.name()));
                    kinds.push(generalise(&m.kind));
                    if m.hang_prone && hang_quota > 0 {
                        hang_quota -= 1;
                    }
                }
                if labels.is_empty() {
                    labels.push(format!("{}: unchanged", b.ty.name()));
                    kinds.push("unchanged".into());
                }
                (b.ty.name().into(), shape.name().into(), labels.join(" + "), kinds.join(" + "), Some(Enc::Tree(tree)), Some(b))
            }
            Plan::Raw { base, kind } => {
                let b = &w.bases[*base];
                let (l, e) = raw_damage(b, *kind, &mut crng);
                (b.ty.name().into(), "raw".into(), format!("{}: {}", b.ty.name(), l), l, Some(e), Some(b))
            }
            Plan::Api(_) => ("(index arguments)".into(), "api".into(), String::new(), "wild index / size".into(), None, None),
        };
        let id = format!("c20/{}", k);
        let header = json!({"id": id, "op": "c20_doc", "k": k,
            "in": {"type": ty_name, "shape": shape_name, "mutation": label, "mode": mode_str(), "backend": pres::backend_str(), "case": k},
            "class": {"type": ty_name, "shape": shape_name, "mut": kind},
            "impl": {"decode": "-"},
            "doc": enc.as_ref().map(doc_repr).unwrap_or(Value::Null)});
        wd.begin(header);
        let mut runner = Runner { w: &w, wd: &wd, extra: vec![], id: id.clone(), label: label.clone(), verify_quota: &mut verify_quota, reg_quota: &mut reg_quota };
        // self-test of the safety nets (development aid): C20_SELFTEST=hang|abort|stack|alloc at case 5
        if k == 5 {
            match std::env::var("C20_SELFTEST").as_deref() {
                Ok("hang") => {
                    let _ = wd.call_t("selftest", Duration::from_millis(1500), || -> Result<(), String> { loop { std::thread::sleep(Duration::from_millis(50)); } });
                }
                Ok("abort") => {
                    let _ = wd.call("selftest", || -> Result<(), String> { std::process::abort() });
                }
                Ok("stack") => {
                    fn rec(n: u64) -> u64 { let a = [n; 64]; if n == u64::MAX { 0 } else { rec(n + 1) + a[(n % 64) as usize] } }
                    let _ = wd.call("selftest", || -> Result<u64, String> { Ok(rec(0)) });
                }
                Ok("alloc") => {
                    let _ = wd.call("selftest", || -> Result<usize, String> { let mut v: Vec<Vec<u8>> = vec![]; loop { v.push(vec![1u8; 1 << 28]); if v.len() > 1000 { return Ok(v.len()); } } });
                }
                _ => {}
            }
        }
        match (&plan, &enc, base) {
            (Plan::Api(a), _, _) => {
                let what = runner.drive_api(*a, &mut crng);
                wd.note("api", json!(what));
            }
            (_, Some(e), Some(b)) => runner.drive(b, e, &mut crng),
            _ => {}
        }
        let extra = std::mem::take(&mut runner.extra);
        let mut line = wd.end();
        if let Plan::Api(_) = plan {
            let what = line["impl"]["api"].as_str().unwrap_or("").to_string();
            line["in"]["mutation"] = json!(format!("index arguments: {}", what));
        }
        emit(&line);
        for x in extra {
            emit(&x);
        }
        k += parts;
    }
    let _ = std::io::stdout().flush();
    Ok(())
}

/// histogram class of a mutation: concrete key names and numbers removed
fn generalise(kind: &str) -> String {
    match kind.find('\'') {
        Some(i) => kind[..i].trim_end().to_string(),
        None => kind.to_string(),
    }
}

// ------------------------------------------------------------------ parent: batches in child processes

fn parent(thorough: bool, rng: &mut Rng) -> Result<(), String> {
    let child_seed = rng.next() >> 2;
    let parts = env_num("C20_PROCS", if thorough { 12 } else { 6 }).max(1) as usize;
    let count = env_num("C20_COUNT", if thorough { 75000 } else { 1500 });
    let budget_s = env_num("C20_BUDGET_S", if thorough { 1500 } else { 55 });
    let exe = std::env::current_exe().map_err(|e| e.to_string())?;
    let dir = PathBuf::from(env!("CARGO_MANIFEST_DIR")).join("..").join("work").join("c20");
    std::fs::create_dir_all(&dir).map_err(|e| e.to_string())?;
    let t0 = Instant::now();
    let deadline = Duration::from_secs(budget_s);
    let errors: Arc<Mutex<Vec<String>>> = Arc::new(Mutex::new(vec![]));
    let mut handles = vec![];
    for part in 0..parts {
        let exe = exe.clone();
        let dir = dir.clone();
        let errors = errors.clone();
        // quotas of model lines per part (the model is ~100x slower than the library)
        let vq = env_num("C20_VERIFY_TOTAL", if thorough { 2000 } else { 60 }) as usize / parts;
        let rq = env_num("C20_REG_TOTAL", if thorough { 4000 } else { 160 }) as usize / parts;
        handles.push(std::thread::spawn(move || {
            let cur = dir.join(format!("{}-{}.cur", std::process::id(), part));
            let mut start = part as u64;
            let mut restarts = 0;
            loop {
                let left = deadline.checked_sub(t0.elapsed()).unwrap_or(Duration::from_millis(0));
                if left.as_millis() < 1500 || start >= count || restarts > 400 {
                    break;
                }
                let _ = std::fs::remove_file(&cur);
                let _ = std::fs::remove_file(cur.with_extension("entry"));
                // address-space limit: an allocation bomb aborts the child instead of the machine
                let mut cmd = std::process::Command::new("sh");
                cmd.arg("-c").arg("ulimit -v 4194304 2>/dev/null; exec \"$0\" \"$@\"").arg(&exe);
                cmd.args(["gen", "c20-batch", "--tier", if thorough { "thorough" } else { "quick" }, "--seed", &child_seed.to_string()]);
                cmd.env("C20_PART", part.to_string()).env("C20_PARTS", parts.to_string()).env("C20_START", start.to_string())
                    .env("C20_COUNT", count.to_string()).env("C20_BUDGET_MS", left.as_millis().to_string()).env("C20_CUR", &cur)
                    .env("C20_VERIFY_QUOTA", (if restarts == 0 { vq } else { 0 }).to_string()).env("C20_REG_QUOTA", (if restarts == 0 { rq } else { 0 }).to_string());
                cmd.stdout(std::process::Stdio::piped()).stderr(std::process::Stdio::inherit());
                let mut child = match cmd.spawn() {
                    Ok(c) => c,
                    Err(e) => {
                        errors.lock().unwrap().push(format!("cannot start batch process: {}", e));
                        break;
                    }
                };
                let out = child.stdout.take().unwrap();
                let mut harness_error = None;
                for line in std::io::BufReader::new(out).lines() {
                    let line = match line {
                        Ok(l) => l,
                        Err(_) => break,
                    };
                    if line.contains("\"harness_error\"") {
                        harness_error = Some(line);
                        continue;
                    }
                    println!("{}", line);
                }
                let status = child.wait();
                let code = status.as_ref().ok().and_then(|s| s.code());
                if let Some(l) = harness_error {
                    errors.lock().unwrap().push(format!("batch process failed: {}", l));
                    break;
                }
                if code == Some(0) {
                    break;
                }
                // the batch died: by a reported hang (exit 42) or by an abort / signal
                let header: Option<Value> = std::fs::read_to_string(&cur).ok().and_then(|s| serde_json::from_str(&s).ok());
                let k = match header.as_ref().and_then(|h| h["k"].as_u64()) {
                    Some(k) => k,
                    None => {
                        errors.lock().unwrap().push(format!("batch process of part {} died before its first case: {:?}", part, status));
                        break;
                    }
                };
                if code != Some(HANG_EXIT) {
                    let entry = std::fs::read_to_string(cur.with_extension("entry")).unwrap_or_else(|_| "?".into());
                    let calls = vec![json!({"entry": entry, "status": "abort", "msg": format!("batch process died: {:?}", status.map(|s| s.to_string()))})];
                    println!("{}", serde_json::to_string(&finish_line(header.unwrap(), calls)).unwrap());
                }
                start = k + parts as u64;
                restarts += 1;
            }
            let _ = std::fs::remove_file(&cur);
            let _ = std::fs::remove_file(cur.with_extension("entry"));
        }));
    }
    for h in handles {
        let _ = h.join();
    }
    let errs = errors.lock().unwrap();
    if errs.is_empty() { Ok(()) } else { Err(errs.join("; ")) }
}
