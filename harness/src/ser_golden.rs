// included by ser.rs — golden artefacts: `clh mkgolden` writes one artefact of every type and
// layout variant (JSON document, compact and named MessagePack) plus the scenario documents
// into /verif/golden/<backend>/; the `ser` stream decodes every stored artefact of BOTH
// back-end directories with the current tree and checks that the objects still work.

use std::path::PathBuf;

pub fn golden_dir(backend: &str) -> PathBuf {
    if let Ok(d) = std::env::var("VERIF_GOLDEN") {
        return PathBuf::from(d).join(backend);
    }
    PathBuf::from(env!("CARGO_MANIFEST_DIR")).join("..").join("golden").join(backend)
}

pub fn make_golden(force: bool) -> Result<(), String> {
    let dir = golden_dir(backend_str());
    let path = dir.join("artefacts.jsonl");
    if path.exists() && !force {
        eprintln!("{} exists (use --force to overwrite)", path.display());
        return Ok(());
    }
    std::fs::create_dir_all(&dir).map_err(|e| e.to_string())?;
    let mut rng = Rng::new(15);
    let mut arts = vec![];
    primitives(&mut arts, &mut rng)?;
    let mut scens = vec![];
    for o in flow_plan(false, &mut rng).into_iter().take(4) {
        scens.push(flow(&o, &mut rng, &mut arts)?);
    }
    let mut seen = std::collections::BTreeSet::new();
    let mut out = String::new();
    let mut n = 0;
    for a in &arts {
        if !seen.insert((a.ty, a.variant.clone())) {
            continue;
        }
        out.push_str(&serde_json::to_string(&json!({"type": a.ty, "variant": a.variant, "json": a.json,
            "msgpack": hex(&a.mp), "msgpack_named": hex(&a.mpn), "written_by": backend_str()})).unwrap());
        out.push('\n');
        n += 1;
    }
    std::fs::write(&path, out).map_err(|e| e.to_string())?;
    std::fs::write(dir.join("scenarios.json"), serde_json::to_string(&scens).unwrap()).map_err(|e| e.to_string())?;
    eprintln!("golden: {} artefacts, {} scenarios written to {}", n, scens.len(), dir.display());
    Ok(())
}

/// `clh mkgolden --rebin`: keep the stored JSON documents (they are the inputs that must stay
/// readable) and rewrite only the two MessagePack forms from them with the current tree — used
/// when a repair changes what binary formats carry (the JSON wire format did not move)
pub fn rebin_golden() -> Result<(), String> {
    let dir = golden_dir(backend_str());
    let path = dir.join("artefacts.jsonl");
    let txt = std::fs::read_to_string(&path).map_err(|e| format!("{}: {}", path.display(), e))?;
    let mut out = String::new();
    let (mut n, mut changed) = (0, 0);
    for line in txt.lines().filter(|l| !l.trim().is_empty()) {
        let mut g: Value = serde_json::from_str(line).map_err(|e| e.to_string())?;
        if let Some((mp, mpn)) = rebin_dispatch(&g) {
            // same document up to the order of map entries (HashMap iteration order is not part
            // of it): keep the stored bytes
            let ty = g["type"].as_str().unwrap_or("").to_string();
            let same = |stored: &Value, new: &[u8]| {
                unhex(stored.as_str().unwrap_or("")).map(|old| {
                    old == new || match (mp_tree(&old).ok(), mp_tree(new).ok()) {
                        (Some(a), Some(b)) => canon_doc(&ty, &a) == canon_doc(&ty, &b),
                        _ => false,
                    }
                }).unwrap_or(false)
            };
            if !(same(&g["msgpack"], &mp) && same(&g["msgpack_named"], &mpn)) {
                let (mp, mpn) = (json!(hex(&mp)), json!(hex(&mpn)));
                changed += 1;
                g["msgpack"] = mp;
                g["msgpack_named"] = mpn;
                out.push_str(&serde_json::to_string(&g).unwrap());
                out.push('\n');
                n += 1;
                continue;
            }
        }
        // untouched artefacts keep their line byte for byte
        out.push_str(line);
        out.push('\n');
        n += 1;
    }
    std::fs::write(&path, out).map_err(|e| e.to_string())?;
    eprintln!("golden: {} artefacts, binary forms of {} rewritten in {}", n, changed, dir.display());
    Ok(())
}

fn rebin_one<T: Serialize + DeserializeOwned>(g: &Value) -> Option<(Vec<u8>, Vec<u8>)> {
    let v: T = serde_json::from_value(g["json"].clone()).ok()?;
    Some((rmp_serde::to_vec(&v).ok()?, rmp_serde::to_vec_named(&v).ok()?))
}

/// decode one stored artefact three ways and compare; re-serialise and compare with the stored
/// documents
fn golden_one<T: Serialize + DeserializeOwned>(g: &Value, eq: &dyn Fn(&T, &T) -> bool) -> (Vec<Value>, u32) {
    let ty = g["type"].as_str().unwrap_or("");
    let labels = labels_of(ty, &g["json"]);
    let ctx = format!("golden type={} variant={} written_by={} read_by={} class={:?}", ty, g["variant"].as_str().unwrap_or(""),
        g["written_by"].as_str().unwrap_or(""), backend_str(), labels);
    let mut failed = vec![];
    let mut checks = 0;
    let mut fail = |name: &str, what: String| failed.push(json!({"name": name, "detail": format!("{}: {}", ctx, what)}));
    checks += 1;
    let from_json = guard(|| serde_json::from_value::<T>(g["json"].clone()));
    let vj = match from_json {
        Out::Ok(v) => v,
        o => {
            fail("golden_json_decodes", format!("{} {}", o.tag(), o.msg()));
            return (failed, checks);
        }
    };
    checks += 1;
    match to_json_doc(&vj) {
        Out::Ok(d) if canon_doc(ty, &d) == canon_doc(ty, &g["json"]) => {}
        // a stored document that spells the identity non-canonically (written before the writer
        // was repaired) must decode, and what is written for it now must be a fixed point
        Out::Ok(d) if labels.iter().any(|l| l == "noncanonical_identity")
            && guard(|| serde_json::from_value::<T>(d.clone())).ok().map(|w| eq(&w, &vj) && to_json_doc(&w).ok() == Some(d.clone())).unwrap_or(false) => {}
        Out::Ok(_) => fail("golden_json_stable", "re-serialised JSON document differs from the stored one".into()),
        o => fail("golden_json_stable", format!("{} {}", o.tag(), o.msg())),
    }
    for (key, named) in [("msgpack", false), ("msgpack_named", true)] {
        let b = match unhex(g[key].as_str().unwrap_or("")) {
            Some(b) if !b.is_empty() => b,
            _ => continue,
        };
        checks += 1;
        match guard(|| rmp_serde::from_slice::<T>(&b)) {
            Out::Ok(v) => {
                if !eq(&v, &vj) {
                    fail(if named { "golden_msgpack_named_equal" } else { "golden_msgpack_equal" }, "value decoded from MessagePack differs from the value decoded from JSON".into());
                }
                checks += 1;
                let re = guard(|| if named { rmp_serde::to_vec_named(&v) } else { rmp_serde::to_vec(&v) });
                match re {
                    Out::Ok(b2) => {
                        let same = b2 == b || match (mp_tree(&b).ok(), mp_tree(&b2).ok()) {
                            (Some(t1), Some(t2)) => canon_doc(ty, &t1) == canon_doc(ty, &t2),
                            _ => false,
                        };
                        if !same && g["written_by"].as_str() == Some(backend_str()) {
                            fail(if named { "golden_msgpack_named_stable" } else { "golden_msgpack_stable" }, "re-serialised MessagePack differs from the stored bytes".into());
                        }
                    }
                    o => fail("golden_msgpack_stable", format!("{} {}", o.tag(), o.msg())),
                }
            }
            o => fail(if named { "golden_msgpack_named_decodes" } else { "golden_msgpack_decodes" }, format!("{} {}", o.tag(), o.msg().chars().take(140).collect::<String>())),
        }
    }
    (failed, checks)
}

macro_rules! golden_dispatch {
    ($g:expr, $( $name:literal => $T:ty ),* $(,)?) => {
        match $g["type"].as_str().unwrap_or("") {
            $( $name => Some(golden_one::<$T>($g, &|a: &$T, b: &$T| a == b)), )*
            "RevocationTailsGenerator" => Some(golden_one::<RevocationTailsGenerator>($g, &|a, b| tails_gen_eq(a, b))),
            "SubProofRequest" => {
                let r = guard(|| serde_json::from_value::<SubProofRequest>($g["json"].clone()));
                let mut f = vec![];
                if !r.is_ok() {
                    f.push(json!({"name": "golden_json_decodes", "detail": format!("golden type=SubProofRequest: {} {}", r.tag(), r.msg())}));
                }
                Some((f, 1))
            }
            _ => None,
        }
    };
}

fn golden_check(g: &Value) -> Option<(Vec<Value>, u32)> {
    golden_dispatch!(g,
        "BigNumber" => BigNumber, "Nonce" => Nonce, "GroupOrderElement" => vf::GroupOrderElement, "PointG1" => vf::PointG1,
        "PointG2" => vf::PointG2, "PointG2Inf" => vf::PointG2Inf, "Pair" => vf::Pair,
        "CredentialSchema" => CredentialSchema, "CredentialSchemaBuilder" => CredentialSchemaBuilder,
        "NonCredentialSchema" => NonCredentialSchema, "NonCredentialSchemaBuilder" => NonCredentialSchemaBuilder,
        "CredentialValue" => CredentialValue, "CredentialValues" => CredentialValues, "CredentialValuesBuilder" => CredentialValuesBuilder,
        "CredentialPublicKey" => CredentialPublicKey, "CredentialPrivateKey" => CredentialPrivateKey,
        "CredentialPrimaryPublicKey" => CredentialPrimaryPublicKey, "CredentialPrimaryPrivateKey" => CredentialPrimaryPrivateKey,
        "CredentialKeyCorrectnessProof" => CredentialKeyCorrectnessProof,
        "CredentialRevocationPublicKey" => CredentialRevocationPublicKey, "CredentialRevocationPrivateKey" => CredentialRevocationPrivateKey,
        "Accumulator" => Accumulator, "RevocationRegistry" => RevocationRegistry, "RevocationRegistryDelta" => RevocationRegistryDelta,
        "RevocationKeyPublic" => RevocationKeyPublic, "RevocationKeyPrivate" => RevocationKeyPrivate, "Tail" => Tail,
        "CredentialSignature" => CredentialSignature, "PrimaryCredentialSignature" => PrimaryCredentialSignature,
        "NonRevocationCredentialSignature" => NonRevocationCredentialSignature, "SignatureCorrectnessProof" => SignatureCorrectnessProof,
        "Witness" => Witness, "WitnessSignature" => WitnessSignature, "LinkSecret" => LinkSecret,
        "BlindedCredentialSecrets" => BlindedCredentialSecrets, "CredentialSecretsBlindingFactors" => CredentialSecretsBlindingFactors,
        "BlindedCredentialSecretsCorrectnessProof" => BlindedCredentialSecretsCorrectnessProof,
        "Predicate" => Predicate, "PredicateType" => PredicateType, "Proof" => Proof, "SubProof" => SubProof,
        "AggregatedProof" => AggregatedProof, "PrimaryProof" => PrimaryProof, "PrimaryEqualProof" => PrimaryEqualProof,
        "PrimaryPredicateInequalityProof" => PrimaryPredicateInequalityProof, "NonRevocProof" => NonRevocProof,
        "NonRevocProofXList" => NonRevocProofXList, "NonRevocProofCList" => NonRevocProofCList,
    )
}

fn rebin_dispatch(g: &Value) -> Option<(Vec<u8>, Vec<u8>)> {
    match g["type"].as_str().unwrap_or("") {
        "BigNumber" => rebin_one::<BigNumber>(g),
        "Nonce" => rebin_one::<Nonce>(g),
        "GroupOrderElement" => rebin_one::<vf::GroupOrderElement>(g),
        "PointG1" => rebin_one::<vf::PointG1>(g),
        "PointG2" => rebin_one::<vf::PointG2>(g),
        "PointG2Inf" => rebin_one::<vf::PointG2Inf>(g),
        "Pair" => rebin_one::<vf::Pair>(g),
        "CredentialSchema" => rebin_one::<CredentialSchema>(g),
        "CredentialSchemaBuilder" => rebin_one::<CredentialSchemaBuilder>(g),
        "NonCredentialSchema" => rebin_one::<NonCredentialSchema>(g),
        "NonCredentialSchemaBuilder" => rebin_one::<NonCredentialSchemaBuilder>(g),
        "CredentialValue" => rebin_one::<CredentialValue>(g),
        "CredentialValues" => rebin_one::<CredentialValues>(g),
        "CredentialValuesBuilder" => rebin_one::<CredentialValuesBuilder>(g),
        "CredentialPublicKey" => rebin_one::<CredentialPublicKey>(g),
        "CredentialPrivateKey" => rebin_one::<CredentialPrivateKey>(g),
        "CredentialPrimaryPublicKey" => rebin_one::<CredentialPrimaryPublicKey>(g),
        "CredentialPrimaryPrivateKey" => rebin_one::<CredentialPrimaryPrivateKey>(g),
        "CredentialKeyCorrectnessProof" => rebin_one::<CredentialKeyCorrectnessProof>(g),
        "CredentialRevocationPublicKey" => rebin_one::<CredentialRevocationPublicKey>(g),
        "CredentialRevocationPrivateKey" => rebin_one::<CredentialRevocationPrivateKey>(g),
        "Accumulator" => rebin_one::<Accumulator>(g),
        "RevocationRegistry" => rebin_one::<RevocationRegistry>(g),
        "RevocationRegistryDelta" => rebin_one::<RevocationRegistryDelta>(g),
        "RevocationKeyPublic" => rebin_one::<RevocationKeyPublic>(g),
        "RevocationKeyPrivate" => rebin_one::<RevocationKeyPrivate>(g),
        "Tail" => rebin_one::<Tail>(g),
        "CredentialSignature" => rebin_one::<CredentialSignature>(g),
        "PrimaryCredentialSignature" => rebin_one::<PrimaryCredentialSignature>(g),
        "NonRevocationCredentialSignature" => rebin_one::<NonRevocationCredentialSignature>(g),
        "SignatureCorrectnessProof" => rebin_one::<SignatureCorrectnessProof>(g),
        "Witness" => rebin_one::<Witness>(g),
        "WitnessSignature" => rebin_one::<WitnessSignature>(g),
        "LinkSecret" => rebin_one::<LinkSecret>(g),
        "BlindedCredentialSecrets" => rebin_one::<BlindedCredentialSecrets>(g),
        "CredentialSecretsBlindingFactors" => rebin_one::<CredentialSecretsBlindingFactors>(g),
        "BlindedCredentialSecretsCorrectnessProof" => rebin_one::<BlindedCredentialSecretsCorrectnessProof>(g),
        "Predicate" => rebin_one::<Predicate>(g),
        "PredicateType" => rebin_one::<PredicateType>(g),
        "Proof" => rebin_one::<Proof>(g),
        "SubProof" => rebin_one::<SubProof>(g),
        "AggregatedProof" => rebin_one::<AggregatedProof>(g),
        "PrimaryProof" => rebin_one::<PrimaryProof>(g),
        "PrimaryEqualProof" => rebin_one::<PrimaryEqualProof>(g),
        "PrimaryPredicateInequalityProof" => rebin_one::<PrimaryPredicateInequalityProof>(g),
        "NonRevocProof" => rebin_one::<NonRevocProof>(g),
        "NonRevocProofXList" => rebin_one::<NonRevocProofXList>(g),
        "NonRevocProofCList" => rebin_one::<NonRevocProofCList>(g),
        "RevocationTailsGenerator" => rebin_one::<RevocationTailsGenerator>(g),
        _ => None,
    }
}

/// the stored credential must still produce an accepted proof, the stored proof must still verify
fn golden_scenario(s: &Value, written_by: &str) -> (Vec<Value>, u32) {
    let ctx = format!("golden scenario fixture={} written_by={} read_by={}", s["fixture"].as_str().unwrap_or(""), written_by, backend_str());
    let mut failed = vec![];
    let r: Result<u32, String> = (|| {
        let cd = load_fixture(s["fixture"].as_str().unwrap_or(""))?;
        let req: SubProofRequest = sub(&s["request"])?;
        let values: CredentialValues = sub(&s["values"])?;
        let sig: CredentialSignature = sub(&s["signature"])?;
        let proof: Proof = sub(&s["proof"])?;
        let nonce: Nonce = sub(&s["proof_nonce"])?;
        let rev = if s.get("witness").is_some() {
            Some((sub::<Witness>(&s["witness"])?, sub::<RevocationRegistry>(&s["registry"])?, sub::<RevocationKeyPublic>(&s["rev_key_pub"])?))
        } else {
            None
        };
        let mut checks = 0;
        checks += 1;
        let v = verify_one(&cd, &req, &proof, &nonce, rev.as_ref().map(|r| (&r.2, &r.1)));
        if !matches!(v, Out::Ok(true)) {
            failed.push(json!({"name": "golden_proof_verifies", "detail": format!("{}: stored proof: {} {}", ctx, v.tag(), v.msg())}));
        }
        checks += 1;
        let n2 = new_nonce().map_err(es)?;
        match guard(|| prove_one(&cd, &req, &sig, &values, &n2, rev.as_ref().map(|r| (&r.1, &r.0)))) {
            Out::Ok(p) => {
                let v = verify_one(&cd, &req, &p, &n2, rev.as_ref().map(|r| (&r.2, &r.1)));
                if !matches!(v, Out::Ok(true)) {
                    failed.push(json!({"name": "golden_credential_works", "detail": format!("{}: proof from the stored credential: {} {}", ctx, v.tag(), v.msg())}));
                }
            }
            o => failed.push(json!({"name": "golden_credential_works", "detail": format!("{}: prover refuses the stored credential: {} {}", ctx, o.tag(), o.msg())})),
        }
        Ok(checks)
    })();
    match r {
        Ok(c) => (failed, c),
        Err(e) => {
            failed.push(json!({"name": "golden_json_decodes", "detail": format!("{}: {}", ctx, e)}));
            (failed, 1)
        }
    }
}

/// legacy (v0.4.1 layout) vectors taken from the repository's own tests: golden/legacy/*.json
fn legacy_cases() -> Result<Vec<Value>, String> {
    let dir = golden_dir("legacy");
    let mut out = vec![];
    let mut names: Vec<PathBuf> = match std::fs::read_dir(&dir) {
        Ok(rd) => rd.filter_map(|e| e.ok().map(|e| e.path())).filter(|p| p.extension().map(|x| x == "json").unwrap_or(false)).collect(),
        Err(_) => return Ok(out),
    };
    names.sort();
    for p in names {
        let v: Value = serde_json::from_str(&std::fs::read_to_string(&p).map_err(|e| e.to_string())?).map_err(|e| format!("{}: {}", p.display(), e))?;
        let name = p.file_name().unwrap().to_string_lossy().to_string();
        let mut failed = vec![];
        let mut checks = 0;
        let kind = v["kind"].as_str().unwrap_or("");
        let ctx = format!("legacy vector {} ({})", name, kind);
        let mut model_in = json!(null);
        match kind {
            // legacy public key + key correctness proof: must decode and the proof must check
            "key_with_kcp" => {
                checks += 2;
                match (guard(|| serde_json::from_value::<CredentialPrimaryPublicKey>(v["legacy"].clone())), guard(|| serde_json::from_value::<CredentialKeyCorrectnessProof>(v["kcp"].clone()))) {
                    (Out::Ok(pk), Out::Ok(kcp)) => {
                        // the public route to the key-correctness check: blinding secrets against the key
                        let r = guard(|| {
                            let full = CredentialPublicKey::build_from_parts(&pk, None)?;
                            let mut b = Prover::new_credential_values_builder()?;
                            b.add_dec_hidden("master_secret", "12345678901234567890")?;
                            Prover::blind_credential_secrets(&full, &kcp, &b.finalize()?, &new_nonce()?)
                        });
                        if !r.is_ok() {
                            failed.push(json!({"name": "legacy_key_works", "detail": format!("{}: key correctness proof no longer checks: {} {}", ctx, r.tag(), r.msg())}));
                        }
                        let d = jv(&pk);
                        if d.get("rms").is_some() {
                            failed.push(json!({"name": "legacy_not_emitted", "detail": format!("{}: current layout emits rms", ctx)}));
                        }
                        model_in = json!({"type": "CredentialPrimaryPublicKey", "legacy": v["legacy"], "decoded": d});
                    }
                    (a, b) => failed.push(json!({"name": "legacy_decodes", "detail": format!("{}: {} {} / {} {}", ctx, a.tag(), a.msg(), b.tag(), b.msg())})),
                }
            }
            // legacy and current layout of the same object must decode to equal values
            "key_pair" | "eq_proof_pair" => {
                checks += 2;
                macro_rules! pair {
                    ($T:ty, $tyname:literal, $field:literal) => {{
                        match (guard(|| serde_json::from_value::<$T>(v["legacy"].clone())), guard(|| serde_json::from_value::<$T>(v["current"].clone()))) {
                            (Out::Ok(a), Out::Ok(b)) => {
                                if a != b {
                                    failed.push(json!({"name": "legacy_equal", "detail": format!("{}: legacy and current layout decode to different values", ctx)}));
                                }
                                let d = jv(&a);
                                if d.get($field).is_some() {
                                    failed.push(json!({"name": "legacy_not_emitted", "detail": format!("{}: current layout emits {}", ctx, $field)}));
                                }
                                // and in MessagePack (named: the legacy field is looked up by name)
                                model_in = json!({"type": $tyname, "legacy": v["legacy"], "decoded": d});
                            }
                            (a, b) => failed.push(json!({"name": "legacy_decodes", "detail": format!("{}: {} {} / {} {}", ctx, a.tag(), a.msg(), b.tag(), b.msg())})),
                        }
                    }};
                }
                if kind == "key_pair" {
                    pair!(CredentialPrimaryPublicKey, "CredentialPrimaryPublicKey", "rms")
                } else {
                    pair!(PrimaryEqualProof, "PrimaryEqualProof", "m1")
                }
            }
            _ => failed.push(json!({"name": "legacy_decodes", "detail": format!("{}: unknown kind", ctx)})),
        }
        out.push(json!({"id": "", "op": "legacy_check", "in": {"name": name, "backend": backend_str(), "doc": model_in},
            "impl": {"failed": failed, "checks": checks}, "class": {"type": format!("legacy:{}", kind), "failed": failed.len()}}));
    }
    Ok(out)
}

pub fn golden_cases() -> Result<Vec<Value>, String> {
    let mut out = vec![];
    for dirname in ["openssl", "rust"] {
        let dir = golden_dir(dirname);
        let path = dir.join("artefacts.jsonl");
        let txt = match std::fs::read_to_string(&path) {
            Ok(t) => t,
            Err(_) => {
                if dirname == backend_str() {
                    return Err(format!("{} missing: run `clh mkgolden` with this build", path.display()));
                }
                continue;
            }
        };
        for line in txt.lines().filter(|l| !l.trim().is_empty()) {
            let g: Value = serde_json::from_str(line).map_err(|e| format!("{}: {}", path.display(), e))?;
            let (failed, checks) = match golden_check(&g) {
                Some(x) => x,
                None => (vec![json!({"name": "golden_json_decodes", "detail": format!("golden type={}: no such type in the current tree", g["type"])})], 1),
            };
            let bin = unhex(g["msgpack_named"].as_str().unwrap_or("")).and_then(|b| mp_tree(&b).ok()).unwrap_or(Value::Null);
            out.push(json!({"id": "", "op": "wire_check",
                "in": {"type": g["type"], "variant": g["variant"], "backend": g["written_by"], "golden": dirname, "read_by": backend_str(), "json": g["json"], "bin": bin},
                "impl": {"failed": failed, "checks": checks},
                "class": {"type": format!("golden:{}", g["type"].as_str().unwrap_or("")), "failed": failed.len()}}));
        }
        if let Ok(t) = std::fs::read_to_string(dir.join("scenarios.json")) {
            let scens: Vec<Value> = serde_json::from_str(&t).map_err(|e| e.to_string())?;
            for (i, s) in scens.iter().enumerate() {
                let (failed, checks) = golden_scenario(s, dirname);
                out.push(json!({"id": "", "op": "golden_scenario", "in": {"golden": dirname, "read_by": backend_str(), "scenario": i, "fixture": s["fixture"]},
                    "impl": {"failed": failed, "checks": checks}, "class": {"type": "golden:scenario", "failed": failed.len()}}));
            }
        }
    }
    out.extend(legacy_cases()?);
    Ok(out)
}
