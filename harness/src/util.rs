//! outcome capture (Ok / Err / panic) and small JSON helpers
use serde_json::{json, Value};
use std::panic::{catch_unwind, AssertUnwindSafe};

#[derive(Debug, Clone)]
pub enum Out<T> {
    Ok(T),
    Err(String),
    Panic(String),
}

impl<T> Out<T> {
    pub fn tag(&self) -> &'static str {
        match self {
            Out::Ok(_) => "ok",
            Out::Err(_) => "err",
            Out::Panic(_) => "panic",
        }
    }
    pub fn ok(self) -> Option<T> {
        match self {
            Out::Ok(v) => Some(v),
            _ => None,
        }
    }
    pub fn is_ok(&self) -> bool {
        matches!(self, Out::Ok(_))
    }
    pub fn msg(&self) -> String {
        match self {
            Out::Ok(_) => String::new(),
            Out::Err(m) | Out::Panic(m) => m.clone(),
        }
    }
}

pub fn silence_panics() {
    std::panic::set_hook(Box::new(|_| {}));
}

fn panic_msg(e: Box<dyn std::any::Any + Send>) -> String {
    if let Some(s) = e.downcast_ref::<&str>() {
        s.to_string()
    } else if let Some(s) = e.downcast_ref::<String>() {
        s.clone()
    } else {
        "panic".into()
    }
}

/// run a fallible library call, capturing `Err` and panics
pub fn guard<T, E: std::fmt::Display>(f: impl FnOnce() -> Result<T, E>) -> Out<T> {
    match catch_unwind(AssertUnwindSafe(f)) {
        Ok(Ok(v)) => Out::Ok(v),
        Ok(Err(e)) => Out::Err(e.to_string()),
        Err(p) => Out::Panic(panic_msg(p)),
    }
}

/// run an infallible call, capturing panics
pub fn guard_inf<T>(f: impl FnOnce() -> T) -> Out<T> {
    match catch_unwind(AssertUnwindSafe(f)) {
        Ok(v) => Out::Ok(v),
        Err(p) => Out::Panic(panic_msg(p)),
    }
}

pub fn hex(b: &[u8]) -> String {
    b.iter().map(|x| format!("{:02x}", x)).collect()
}

pub fn unhex(s: &str) -> Option<Vec<u8>> {
    if s.len() % 2 != 0 {
        return None;
    }
    (0..s.len() / 2).map(|i| u8::from_str_radix(&s[2 * i..2 * i + 2], 16).ok()).collect()
}

pub fn jv<T: serde::Serialize>(t: &T) -> Value {
    serde_json::to_value(t).unwrap_or(Value::Null)
}

pub fn from_jv<T: serde::de::DeserializeOwned>(v: &Value) -> Result<T, String> {
    serde_json::from_value(v.clone()).map_err(|e| e.to_string())
}

pub fn status_obj<T>(o: &Out<T>) -> Value {
    json!({"status": o.tag(), "msg": o.msg()})
}

pub fn emit(v: &Value) {
    println!("{}", serde_json::to_string(v).unwrap());
}
