//! presentations: honest proofs (C01), altered / adversarial proofs (C02, C03), common
//! attributes (C11). Scenarios are built once and shared by the streams.
use crate::fixtures::*;
use crate::reg::mode_str;
use crate::rng::Rng;
use crate::util::*;
use anoncreds_clsignatures::*;
use serde_json::{json, Value};
use std::collections::BTreeMap;

pub fn backend_str() -> &'static str {
    if cfg!(feature = "ossl") {
        "openssl"
    } else {
        "rust"
    }
}

#[derive(Clone, Debug)]
pub struct PredSpec {
    pub attr: String,
    pub ptype: String,
    pub value: i32,
}

#[derive(Clone, Debug)]
pub struct ReqSpec {
    pub revealed: Vec<String>,
    pub predicates: Vec<PredSpec>,
}

impl ReqSpec {
    pub fn build(&self) -> Result<SubProofRequest, String> {
        let mut b = Verifier::new_sub_proof_request_builder().map_err(|e| e.to_string())?;
        for a in &self.revealed {
            b.add_revealed_attr(a).map_err(|e| e.to_string())?;
        }
        for p in &self.predicates {
            b.add_predicate(&p.attr, &p.ptype, p.value).map_err(|e| e.to_string())?;
        }
        b.finalize().map_err(|e| e.to_string())
    }
    pub fn to_json(&self) -> Value {
        let mut rv = self.revealed.clone();
        rv.sort();
        rv.dedup();
        json!({"revealed": rv, "predicates": self.predicates.iter().map(|p| json!({"attr_name": p.attr, "p_type": p.ptype, "value": p.value})).collect::<Vec<_>>()})
    }
}

pub fn pred_holds(ptype: &str, v: i64, t: i64) -> bool {
    match ptype {
        "GE" => v >= t,
        "GT" => v > t,
        "LE" => v <= t,
        _ => v < t,
    }
}

const I32_EDGE: [i64; 12] = [0, 1, -1, 2, i32::MAX as i64, i32::MIN as i64, i32::MAX as i64 - 1, i32::MIN as i64 + 1, 17, 18, 1000000, -1000000];

pub fn int_value(rng: &mut Rng) -> i64 {
    match rng.below(6) {
        0 => *rng.pick(&I32_EDGE),
        1 => rng.range(-64, 64),
        2 => i32::MAX as i64 - rng.range(0, 64),
        3 => i32::MIN as i64 + rng.range(0, 64),
        _ => rng.range(i32::MIN as i64, i32::MAX as i64),
    }
}

pub fn threshold_for(rng: &mut Rng, v: i64) -> i64 {
    let t = match rng.below(7) {
        0 => v,
        1 => v + 1,
        2 => v - 1,
        3 => *rng.pick(&I32_EDGE),
        4 => rng.range(-64, 64),
        5 => if rng.chance(1, 2) { i32::MAX as i64 - rng.range(0, 3) } else { i32::MIN as i64 + rng.range(0, 3) },
        _ => rng.range(i32::MIN as i64, i32::MAX as i64),
    };
    t.clamp(i32::MIN as i64, i32::MAX as i64)
}

/// a non-integer-looking attribute value: 256-bit hash, > 256 bit, negative big, small
pub fn big_value(rng: &mut Rng) -> String {
    match rng.below(5) {
        0 => u128::from_str_radix(&rng.hex_bits(120), 16).map(|x| x.to_string()).unwrap_or("7".into()),
        1 => dec_of_hex(&rng.hex_bits(256)),
        2 => dec_of_hex(&rng.hex_bits(300)),
        3 => format!("-{}", dec_of_hex(&rng.hex_bits(200))),
        _ => format!("{}", rng.range(0, 100000)),
    }
}

pub fn dec_of_hex(h: &str) -> String {
    // base conversion without a bignum dependency in the harness: schoolbook on decimal digits
    let mut digits: Vec<u8> = vec![0];
    for c in h.chars() {
        let d = c.to_digit(16).unwrap_or(0) as u32;
        let mut carry = d;
        for x in digits.iter_mut() {
            let v = (*x as u32) * 16 + carry;
            *x = (v % 10) as u8;
            carry = v / 10;
        }
        while carry > 0 {
            digits.push((carry % 10) as u8);
            carry /= 10;
        }
    }
    let s: String = digits.iter().rev().map(|d| (b'0' + d) as char).collect();
    let t = s.trim_start_matches('0');
    if t.is_empty() { "0".into() } else { t.into() }
}

pub struct Held {
    pub cd_name: String,
    pub known: BTreeMap<String, String>,
    pub hidden: BTreeMap<String, String>,
    pub cred: Credential,
}

pub struct Scenario {
    pub held: Vec<Held>,
    pub reqs: Vec<ReqSpec>,
    pub common: Vec<String>,
    pub nonce: Nonce,
}

pub struct Pool {
    pub defs: Vec<(String, CredDef)>,
}

impl Pool {
    pub fn load() -> Result<Pool, String> {
        let mut defs = vec![];
        for (name, _, _, _) in fixture_specs() {
            defs.push((name.to_string(), load_fixture(name)?));
        }
        Ok(Pool { defs })
    }
    pub fn get(&self, name: &str) -> &CredDef {
        &self.defs.iter().find(|(n, _)| n == name).unwrap().1
    }
}

/// issue one credential with random values; `int_attrs` get i32 values
pub fn hold(pool: &Pool, cd_name: &str, link_secret: &str, rng: &mut Rng) -> Result<Held, String> {
    let cd = pool.get(cd_name);
    let mut known = BTreeMap::new();
    for a in &cd.attrs {
        let v = if rng.chance(3, 4) { int_value(rng).to_string() } else { big_value(rng) };
        known.insert(a.clone(), v);
    }
    let mut hidden = BTreeMap::new();
    for a in &cd.non_attrs {
        hidden.insert(a.clone(), if a == "master_secret" { link_secret.to_string() } else { big_value(rng).trim_start_matches('-').to_string() });
    }
    let cred = issue(cd, &known, &hidden, &format!("prover-{}", rng.below(1000)), None)?;
    Ok(Held { cd_name: cd_name.to_string(), known, hidden, cred })
}

pub fn random_request(h: &Held, rng: &mut Rng, all_true: bool) -> ReqSpec {
    let mut revealed = vec![];
    let mut predicates = vec![];
    let attrs: Vec<&String> = h.known.keys().collect();
    for a in attrs {
        let as_int = h.known[a].parse::<i64>().ok().filter(|v| *v >= i32::MIN as i64 && *v <= i32::MAX as i64);
        match rng.below(3) {
            0 => revealed.push(a.clone()),
            1 => {
                if let Some(v) = as_int {
                    let n = 1 + rng.below(3);
                    for _ in 0..n {
                        let ptype = *rng.pick(&["GE", "GT", "LE", "LT"]);
                        let mut t = threshold_for(rng, v);
                        if all_true && !pred_holds(ptype, v, t) {
                            // move the threshold to the nearest satisfying one
                            t = match ptype {
                                "GE" => v - rng.range(0, 2),
                                "GT" => v - 1 - rng.range(0, 2),
                                "LE" => v + rng.range(0, 2),
                                _ => v + 1 + rng.range(0, 2),
                            };
                            if t < i32::MIN as i64 || t > i32::MAX as i64 {
                                continue;
                            }
                        }
                        predicates.push(PredSpec { attr: a.clone(), ptype: ptype.to_string(), value: t as i32 });
                    }
                }
            }
            _ => {}
        }
    }
    ReqSpec { revealed, predicates }
}

pub fn cred_json(cd: &CredDef, req: &ReqSpec, has_registry: bool, has_regkey: bool) -> Value {
    let pkj = jv(&cd.pk);
    json!({"pk": pkj["p_key"], "schema": cd.attrs, "non_schema": cd.non_attrs, "req": req.to_json(),
           "has_rkey": !pkj["r_key"].is_null(), "has_registry": has_registry, "has_regkey": has_regkey})
}

/// build the proof with the real prover; returns per-credential add results and the proof
pub fn prove(pool: &Pool, sc: &Scenario) -> (Vec<Out<()>>, Out<Proof>) {
    let mut pb = match Prover::new_proof_builder() {
        Ok(p) => p,
        Err(e) => return (vec![], Out::Err(e.to_string())),
    };
    for a in &sc.common {
        let _ = pb.add_common_attribute(a);
    }
    let mut adds = vec![];
    for (h, r) in sc.held.iter().zip(sc.reqs.iter()) {
        let cd = pool.get(&h.cd_name);
        let req = match r.build() {
            Ok(x) => x,
            Err(e) => {
                adds.push(Out::Err(e));
                continue;
            }
        };
        let res = guard(|| pb.add_sub_proof_request(&req, &cd.schema, &cd.non_schema, &h.cred.sig, &h.cred.values, &cd.pk, None, None));
        adds.push(res);
    }
    if adds.iter().any(|a| !a.is_ok()) {
        return (adds, Out::Err("add_sub_proof_request failed".into()));
    }
    let proof = guard(|| pb.finalize(&sc.nonce));
    (adds, proof)
}

pub fn verify(pool: &Pool, sc: &Scenario, proof: &Proof, nonce: &Nonce) -> Out<bool> {
    verify_reqs(pool, sc, &sc.reqs, proof, nonce)
}

/// as `verify`, with the verifier's sub-proof requests given separately (a verifier asking for
/// something else than what the prover proved)
pub fn verify_reqs(pool: &Pool, sc: &Scenario, reqs: &[ReqSpec], proof: &Proof, nonce: &Nonce) -> Out<bool> {
    guard(|| {
        let mut pv = Verifier::new_proof_verifier()?;
        for a in &sc.common {
            pv.add_common_attribute(a)?;
        }
        for (h, r) in sc.held.iter().zip(reqs.iter()) {
            let cd = pool.get(&h.cd_name);
            let req = r.build().map_err(|e| err_msg_s(&e))?;
            pv.add_sub_proof_request(&req, &cd.schema, &cd.non_schema, &cd.pk, None, None)?;
        }
        pv.verify(proof, nonce)
    })
}

/// as `verify`, with the common attributes declared after `after` sub-proof requests were added
/// (the API asks for them "before proof verification starts", in any order relative to the requests)
pub fn verify_declared_after(pool: &Pool, sc: &Scenario, proof: &Proof, nonce: &Nonce, after: usize) -> Out<bool> {
    guard(|| {
        let mut pv = Verifier::new_proof_verifier()?;
        let mut declared = false;
        for (i, (h, r)) in sc.held.iter().zip(sc.reqs.iter()).enumerate() {
            if i == after {
                for a in &sc.common { pv.add_common_attribute(a)?; }
                declared = true;
            }
            let cd = pool.get(&h.cd_name);
            let req = r.build().map_err(|e| err_msg_s(&e))?;
            pv.add_sub_proof_request(&req, &cd.schema, &cd.non_schema, &cd.pk, None, None)?;
        }
        if !declared {
            for a in &sc.common { pv.add_common_attribute(a)?; }
        }
        pv.verify(proof, nonce)
    })
}

pub fn err_msg_s(e: &str) -> Error {
    Error::new(ErrorKind::InvalidState, e.to_string())
}

pub fn out_bool_json(o: &Out<bool>) -> Value {
    match o {
        Out::Ok(b) => json!({"status": "ok", "valid": b}),
        Out::Err(m) => json!({"status": "err", "msg": m}),
        Out::Panic(m) => json!({"status": "panic", "msg": m}),
    }
}

pub fn verify_case(id: &str, pool: &Pool, sc: &Scenario, proof_json: &Value, nonce_dec: &str, implv: Value, class: Value) -> Value {
    verify_case_reqs(id, pool, sc, &sc.reqs, proof_json, nonce_dec, implv, class)
}

#[allow(clippy::too_many_arguments)]
pub fn verify_case_reqs(id: &str, pool: &Pool, sc: &Scenario, reqs: &[ReqSpec], proof_json: &Value, nonce_dec: &str, implv: Value, class: Value) -> Value {
    let creds: Vec<Value> = sc.held.iter().zip(reqs.iter()).map(|(h, r)| cred_json(pool.get(&h.cd_name), r, false, false)).collect();
    json!({"id": id, "op": "verify",
           "in": {"backend": backend_str(), "mode": mode_str(), "common": sc.common, "creds": creds, "proof": proof_json, "nonce": nonce_dec},
           "impl": implv, "class": class})
}

pub fn random_scenario(pool: &Pool, rng: &mut Rng, all_true: bool) -> Result<Scenario, String> {
    let ncred = match rng.below(10) { 0..=5 => 1, 6..=8 => 2, _ => 3 };
    let link = dec_of_hex(&rng.hex_bits(255));
    let names: Vec<String> = pool.defs.iter().map(|(n, _)| n.clone()).collect();
    let mut held = vec![];
    let mut reqs = vec![];
    for _ in 0..ncred {
        let name = rng.pick(&names).clone();
        let h = hold(pool, &name, &link, rng)?;
        reqs.push(random_request(&h, rng, all_true));
        held.push(h);
    }
    let common = if ncred > 1 || rng.chance(1, 2) { vec!["master_secret".to_string()] } else { vec![] };
    Ok(Scenario { held, reqs, common, nonce: new_nonce().map_err(|e| e.to_string())? })
}

/// C01 stream: honest presentations
fn gen_pres(thorough: bool, rng: &mut Rng) -> Result<(), String> {
    let pool = Pool::load()?;
    let n = if thorough { 600 } else { 45 };
    for k in 0..n {
        let all_true = !rng.chance(1, 5);
        let mut sc = random_scenario(&pool, rng, all_true)?;
        // application-chosen short nonces (the API takes any number): 0, 1, a 9-digit value, 2^64, 2^72-1, 2^72
        if k % 6 == 1 {
            // ... and long ones: 2^80, 2^128 - 1, a 256-bit value (every byte of the nonce must be bound)
            let shorts = ["0", "1", "123456789", "18446744073709551616", "4722366482869645213695", "4722366482869645213696",
                          "1208925819614629174706176", "340282366920938463463374607431768211455",
                          "57896044618658097711785492504343953926634992332820282019728792003956564819968"];
            sc.nonce = bn::BigNumber::from_dec(shorts[(k / 6) % shorts.len()]).map_err(|e| e.to_string())?;
        }
        let mut oracles = vec![];
        let (adds, proof) = prove(&pool, &sc);
        // every predicate as a separate arithmetic case (C03) and refusal oracle
        let mut pred_cases = vec![];
        for (ci, (h, r)) in sc.held.iter().zip(sc.reqs.iter()).enumerate() {
            let all_hold = r.predicates.iter().all(|p| pred_holds(&p.ptype, h.known[&p.attr].parse::<i64>().unwrap_or(0), p.value as i64));
            if let Some(a) = adds.get(ci) {
                let detail = |what: &str| format!("{}: credential {} values {:?} request {:?} -> {} ({})", what, ci, h.known, r.to_json(), a.tag(), a.msg());
                match a {
                    Out::Panic(_) => oracles.push(json!({"name":"prover_no_panic","ok":false,"detail":detail("add_sub_proof_request panicked")})),
                    Out::Ok(_) if !all_hold => oracles.push(json!({"name":"prover_refuses_false","ok":false,"detail":detail("proof built for a false predicate")})),
                    Out::Err(_) if all_hold => oracles.push(json!({"name":"prover_builds_true","ok":false,"detail":detail("satisfiable request refused")})),
                    _ => {}
                }
            }
            for p in &r.predicates {
                let v = h.known[&p.attr].parse::<i64>().unwrap_or(0);
                pred_cases.push(json!({"p_type": p.ptype, "value": v, "threshold": p.value, "holds": pred_holds(&p.ptype, v, p.value as i64)}));
            }
        }
        let nonce_dec = sc.nonce.to_dec().unwrap_or_default();
        let class = json!({"ncred": sc.held.len(), "npred": sc.reqs.iter().map(|r| r.predicates.len()).sum::<usize>(),
            "nrevealed": sc.reqs.iter().map(|r| r.revealed.len()).sum::<usize>(), "all_true": all_true, "common": sc.common.len(),
            "defs": sc.held.iter().map(|h| h.cd_name.clone()).collect::<Vec<_>>().join("+")});
        match &proof {
            Out::Ok(p) => {
                let v = verify(&pool, &sc, p, &sc.nonce);
                if !matches!(v, Out::Ok(true)) {
                    oracles.push(json!({"name":"honest_proof_verifies","ok":false,"detail":format!("honest proof not accepted: {} {} requests {:?}", v.tag(), v.msg(), sc.reqs.iter().map(|r| r.to_json()).collect::<Vec<_>>())}));
                }
                // revealed values reported by the proof equal the credential's values
                for (ci, (h, r)) in sc.held.iter().zip(sc.reqs.iter()).enumerate() {
                    let ra = p.proofs[ci].revealed_attrs().unwrap_or_default();
                    let mut want: Vec<(String, String)> = r.revealed.iter().map(|a| (a.clone(), h.known[a].clone())).collect();
                    want.sort();
                    want.dedup();
                    let mut got: Vec<(String, String)> = ra.into_iter().collect();
                    got.sort();
                    if want != got {
                        oracles.push(json!({"name":"revealed_values_equal","ok":false,"detail":format!("sub-proof {} reports {:?}, credential holds {:?}", ci, got, want)}));
                    }
                }
                // verification is a function of the proof: a different nonce must fail
                let other = new_nonce().map_err(|e| e.to_string())?;
                let v2 = verify(&pool, &sc, p, &other);
                if matches!(v2, Out::Ok(true)) {
                    oracles.push(json!({"name":"other_nonce_rejected","ok":false,"detail":"honest proof accepted under a different nonce"}));
                }
                // ... and the neighbouring nonce (differs in the last byte only)
                if let Ok(plus1) = sc.nonce.increment() {
                    if matches!(verify(&pool, &sc, p, &plus1), Out::Ok(true)) {
                        oracles.push(json!({"name":"other_nonce_rejected","ok":false,"detail":format!("honest proof made for nonce {} accepted under nonce + 1", nonce_dec)}));
                    }
                }
                let mut implv = out_bool_json(&v);
                implv["oracles"] = json!(oracles);
                implv["preds"] = json!(pred_cases);
                emit(&verify_case(&format!("pres/{}", k), &pool, &sc, &jv(p), &nonce_dec, implv, class));
            }
            other => {
                // refused: still report the oracles through a `pred`-only case
                emit(&json!({"id": format!("pres/{}", k), "op": "pres_refused", "in": {},
                    "impl": {"status": other.tag(), "oracles": oracles, "preds": pred_cases}, "class": class}));
            }
        }
    }
    Ok(())
}

/// C03 arithmetic stream: the real `_init_ne_proof` decision over the boundary grid
fn gen_predgrid(thorough: bool, rng: &mut Rng) -> Result<(), String> {
    let pool = Pool::load()?;
    let cd = pool.get("gvt_rev");
    // one credential per value is expensive (issuance); instead drive the decision through the
    // prover with a credential whose `age` is re-issued for each distinct value in the grid
    let mut values: Vec<i64> = vec![];
    let w = if thorough { 8 } else { 3 };
    for d in 0..=w {
        values.extend_from_slice(&[d, -d, i32::MAX as i64 - d, i32::MIN as i64 + d]);
    }
    for _ in 0..(if thorough { 40 } else { 6 }) {
        values.push(rng.range(i32::MIN as i64, i32::MAX as i64));
    }
    values.sort();
    values.dedup();
    let link = dec_of_hex(&rng.hex_bits(255));
    let mut k = 0;
    for v in values {
        let mut known = BTreeMap::new();
        for a in &cd.attrs {
            known.insert(a.clone(), if a == "age" { v.to_string() } else { "5".to_string() });
        }
        let mut hidden = BTreeMap::new();
        hidden.insert("master_secret".to_string(), link.clone());
        let cred = issue(cd, &known, &hidden, "p", None)?;
        let mut thresholds: Vec<i64> = vec![v, v + 1, v - 1, 0, -1, 1, i32::MAX as i64, i32::MIN as i64, i32::MAX as i64 - 1, i32::MIN as i64 + 1];
        for _ in 0..(if thorough { 6 } else { 2 }) {
            thresholds.push(rng.range(i32::MIN as i64, i32::MAX as i64));
        }
        thresholds.retain(|t| *t >= i32::MIN as i64 && *t <= i32::MAX as i64);
        thresholds.sort();
        thresholds.dedup();
        for t in thresholds {
            for ptype in ["GE", "GT", "LE", "LT"] {
                let req = ReqSpec { revealed: vec![], predicates: vec![PredSpec { attr: "age".into(), ptype: ptype.into(), value: t as i32 }] };
                let r = guard(|| {
                    let mut pb = Prover::new_proof_builder()?;
                    pb.add_common_attribute("master_secret")?;
                    pb.add_sub_proof_request(&req.build().map_err(|e| err_msg_s(&e))?, &cd.schema, &cd.non_schema, &cred.sig, &cred.values, &cd.pk, None, None)?;
                    Ok::<_, Error>(pb)
                });
                let decision = match &r { Out::Ok(_) => "build", Out::Err(_) => "refuse", Out::Panic(_) => "panic" };
                let holds = pred_holds(ptype, v, t);
                let mut oracles = vec![];
                if decision == "panic" {
                    oracles.push(json!({"name":"prover_no_panic","ok":false,"detail":format!("value {} {} {}: panic {}", v, ptype, t, r.msg())}));
                } else if (decision == "build") != holds {
                    oracles.push(json!({"name": if holds {"prover_builds_true"} else {"prover_refuses_false"},"ok":false,
                        "detail":format!("value {} {} {}: predicate is {} but the prover's decision is {}", v, ptype, t, holds, decision)}));
                }
                // when built: the verifier accepts it for the same request
                if let Out::Ok(pb) = r {
                    if rng.chance(1, if thorough { 3 } else { 6 }) {
                        let nonce = new_nonce().map_err(|e| e.to_string())?;
                        let vres = guard(|| {
                            let proof = pb.finalize(&nonce)?;
                            let mut pv = Verifier::new_proof_verifier()?;
                            pv.add_common_attribute("master_secret")?;
                            pv.add_sub_proof_request(&req.build().map_err(|e| err_msg_s(&e))?, &cd.schema, &cd.non_schema, &cd.pk, None, None)?;
                            pv.verify(&proof, &nonce)
                        });
                        if !matches!(vres, Out::Ok(true)) {
                            oracles.push(json!({"name":"honest_proof_verifies","ok":false,"detail":format!("value {} {} {}: built proof not accepted: {} {}", v, ptype, t, vres.tag(), vres.msg())}));
                        }
                    }
                }
                emit(&json!({"id": format!("predgrid/{}", k), "op": "pred",
                    "in": {"mode": mode_str(), "p_type": ptype, "value": v, "threshold": t},
                    "impl": {"decision": decision, "holds": holds, "oracles": oracles},
                    "class": {"ptype": ptype, "holds": holds, "zone": zone(v, t)}}));
                k += 1;
            }
        }
    }
    Ok(())
}

fn zone(v: i64, t: i64) -> String {
    let z = |x: i64| if x > i32::MAX as i64 - 100 { "max" } else if x < i32::MIN as i64 + 100 { "min" } else if x.abs() < 100 { "zero" } else { "mid" };
    format!("{}/{}{}", z(v), z(t), if (v - t).abs() <= 1 { "/eq" } else { "" })
}

/// C11 stream: tuples of credentials with declared common attributes
fn gen_common(thorough: bool, rng: &mut Rng) -> Result<(), String> {
    let pool = Pool::load()?;
    let names: Vec<String> = pool.defs.iter().map(|(n, _)| n.clone()).collect();
    // a cheating holder with two credentials holding x and -x for an attribute the VERIFIER declares common: the model
    // prover masks it with t in one sub-proof and -t in the other, so the responses are each other's negatives (same
    // magnitude). Control: equal values, equal masks (accepted although the prover did not declare the attribute).
    for k in 0..(if thorough { 8 } else { 2 }) {
        for forged in [false, true] {
            let link = dec_of_hex(&rng.hex_bits(255));
            let x = 1 + rng.below(1_000_000) as i64;
            let t = dec_of_hex(&rng.hex_bits(592));
            let draw = |rng: &mut Rng, bits: usize| dec_of_hex(&rng.hex_bits(bits));
            let seed = draw(rng, 592);
            let (mut creds, mut defs, mut reqs) = (vec![], vec![], vec![]);
            for ci in 0..2 {
                let name = rng.pick(&names).clone();
                let cd = pool.get(&name);
                let mut h = hold(&pool, &name, &link, rng)?;
                let age = if forged && ci == 1 { -x } else { x };
                h.known.insert("age".into(), age.to_string());
                h.cred = issue(cd, &h.known, &h.hidden, "p", None)?;
                let req = ReqSpec { revealed: h.known.keys().filter(|a| *a != "age").take(ci + 1).cloned().collect(), predicates: vec![] };
                let mut vals: BTreeMap<String, String> = h.known.clone();
                for (a, v) in &h.hidden { vals.insert(a.clone(), v.clone()); }
                let mut m_tilde = BTreeMap::new();
                for a in cd.attrs.iter().chain(cd.non_attrs.iter()) {
                    if !req.revealed.contains(a) && a != "master_secret" {
                        m_tilde.insert(a.clone(), if a == "age" { if forged && ci == 1 { format!("-{}", t) } else { t.clone() } } else { draw(rng, 592) });
                    }
                }
                creds.push(json!({"pk": jv(&cd.pk)["p_key"], "sig": jv(&h.cred.sig)["p_credential"], "values": vals, "schema": cd.attrs,
                    "non_schema": cd.non_attrs, "req": req.to_json(),
                    "tape": {"r": draw(rng, 2128), "e_tilde": draw(rng, 456), "v_tilde": draw(rng, 3060), "m_tilde": m_tilde,
                             "m2_tilde": draw(rng, 2432), "preds": Vec::<Value>::new()}}));
                defs.push(name.clone());
                reqs.push(req.to_json());
            }
            let nonce = new_nonce().map_err(|e| e.to_string())?.to_dec().unwrap_or_default();
            let common: BTreeMap<String, String> = [("master_secret".to_string(), seed)].into_iter().collect();
            emit(&json!({"id": format!("common/negated/{}/{}", k, if forged { "forged" } else { "control" }), "op": "prove_multi",
                "in": {"backend": backend_str(), "mode": mode_str(), "common": common, "nonce": nonce, "creds": creds},
                "impl": {"exec": {"op": "verify_proof_multi", "in": {"defs": defs, "reqs": reqs, "common": ["master_secret", "age"], "nonce": nonce}},
                         "expect_accept": !forged, "oracle": "common_attribute_enforced",
                         "what": format!("two credentials holding age = {} and age = {}, 'age' declared common by the verifier, responses m and -m", x, -x)},
                "class": {"kind": if forged { "negated-common-forgery" } else { "negated-common-control" }, "ncred": 2}}));
        }
    }
    // one verifier object judging several proofs in a row (`verify` takes `&mut self`): its verdict on a proof must not
    // depend on the proofs it has seen before; 1..3 credentials, link secret declared common
    for k in 0..(if thorough { 12 } else { 3 }) {
        let ncred = 1 + k % 3;
        let link = dec_of_hex(&rng.hex_bits(255));
        let mut held = vec![];
        let mut reqs = vec![];
        for _ in 0..ncred {
            let name = rng.pick(&names).clone();
            let h = hold(&pool, &name, &link, rng)?;
            reqs.push(random_request(&h, rng, true));
            held.push(h);
        }
        let sc = Scenario { held, reqs, common: vec!["master_secret".to_string()], nonce: new_nonce().map_err(|e| e.to_string())? };
        let (p1, p2) = match (prove(&pool, &sc).1, prove(&pool, &sc).1) {
            (Out::Ok(a), Out::Ok(b)) => (a, b),
            _ => return Err("common/reuse: honest proof could not be built".into()),
        };
        let nonce_dec = sc.nonce.to_dec().unwrap_or_default();
        let mut results: Vec<Out<bool>> = vec![];
        let built: Out<()> = guard(|| {
            let mut pv = Verifier::new_proof_verifier()?;
            for a in &sc.common { pv.add_common_attribute(a)?; }
            for (h, r) in sc.held.iter().zip(sc.reqs.iter()) {
                let cd = pool.get(&h.cd_name);
                pv.add_sub_proof_request(&r.build().map_err(|e| err_msg_s(&e))?, &cd.schema, &cd.non_schema, &cd.pk, None, None)?;
            }
            for p in [&p1, &p2, &p1] {
                results.push(guard(|| pv.verify(p, &sc.nonce)));
            }
            Ok::<(), Error>(())
        });
        if !built.is_ok() { return Err(format!("common/reuse: verifier could not be set up: {}", built.msg())); }
        for (n, (p, res)) in [&p1, &p2, &p1].iter().zip(results.iter()).enumerate() {
            let mut or = vec![];
            if !matches!(res, Out::Ok(true)) {
                or.push(json!({"name":"honest_proof_verifies","ok":false,"detail":format!(
                    "a verifier object used again: call {} of verify (valid proof over {} credential(s), link secret common) returned {} {}", n + 1, ncred, res.tag(), res.msg())}));
            }
            let mut iv = out_bool_json(res);
            iv["oracles"] = json!(or);
            emit(&verify_case(&format!("common/reuse/{}/{}", k, n), &pool, &sc, &jv(*p), &nonce_dec, iv, json!({"alteration":"none","kind":"verifier_reused","call": n + 1, "ncred": ncred})));
        }
    }
    let n = if thorough { 160 } else { 14 };
    // which credentials hold the first value (A) and which another one (B): every position of the
    // odd one out, runs of equal values before a different one, two pairs
    let patterns: Vec<&str> = vec!["AAB", "ABA", "BAA", "AABB", "AAAB", "ABAB", "AABA"];
    for k in 0..n + 2 * patterns.len() {
        // the pattern is applied to the link secret first, then (second round) to the declared attribute `age`
        let forced: Option<&str> = if k >= n { Some(patterns[(k - n) % patterns.len()]) } else { None };
        let on_age = k >= n + patterns.len();
        let ncred = match forced { Some(p) => p.len(), None => 2 + rng.below(if thorough { 3 } else { 2 }) as usize };
        let same_link = forced.is_none() && rng.chance(2, 3);
        let same_age = rng.chance(1, 2) && !on_age;
        let declare_age = rng.chance(1, 2) || on_age;
        let link0 = dec_of_hex(&rng.hex_bits(255));
        let link_b = dec_of_hex(&rng.hex_bits(255));
        let age0 = int_value(rng).to_string();
        let age_b = (age0.parse::<i64>().unwrap_or(0) / 2 + 7).to_string();
        let mut held = vec![];
        let mut reqs = vec![];
        for ci in 0..ncred {
            let name = rng.pick(&names).clone();
            let link = match forced {
                Some(p) => if on_age || p.as_bytes()[ci] == b'A' { link0.clone() } else { link_b.clone() },
                None => if same_link || ci == 0 { link0.clone() } else if rng.chance(1, 2) { link_b.clone() } else { dec_of_hex(&rng.hex_bits(255)) },
            };
            let mut h = hold(&pool, &name, &link, rng)?;
            // every fixture schema has `age`: re-issue with the chosen value
            let age = match forced {
                Some(p) if on_age => if p.as_bytes()[ci] == b'A' { age0.clone() } else { age_b.clone() },
                Some(_) => age0.clone(),
                None => if same_age || ci == 0 { age0.clone() } else { int_value(rng).to_string() },
            };
            if h.known["age"] != age {
                h.known.insert("age".into(), age);
                h.cred = issue(pool.get(&name), &h.known, &h.hidden, "p", None)?;
            }
            // `age` must stay unrevealed to be usable as a common attribute
            let mut r = random_request(&h, rng, true);
            r.revealed.retain(|a| a != "age");
            reqs.push(r);
            held.push(h);
        }
        let mut common = vec!["master_secret".to_string()];
        if declare_age {
            common.push("age".to_string());
        }
        let sc = Scenario { held, reqs, common, nonce: new_nonce().map_err(|e| e.to_string())? };
        let links_equal = sc.held.iter().all(|h| h.hidden["master_secret"] == sc.held[0].hidden["master_secret"]);
        let ages_equal = sc.held.iter().all(|h| h.known["age"] == sc.held[0].known["age"]);
        let should_accept = links_equal && (!declare_age || ages_equal);
        let (_adds, proof) = prove(&pool, &sc);
        let proof = match proof {
            Out::Ok(p) => p,
            o => return Err(format!("common: honest proof could not be built: {} {}", o.tag(), o.msg())),
        };
        let nonce_dec = sc.nonce.to_dec().unwrap_or_default();
        let class = json!({"ncred": ncred, "links_equal": links_equal, "declare_age": declare_age, "ages_equal": ages_equal, "pattern": forced});
        let v = verify(&pool, &sc, &proof, &sc.nonce);
        let mut oracles = vec![];
        if should_accept && !matches!(v, Out::Ok(true)) {
            oracles.push(json!({"name":"honest_proof_verifies","ok":false,"detail":format!("equal common values not accepted: {} {} {}", v.tag(), v.msg(), class)}));
        }
        if !should_accept && matches!(v, Out::Ok(true)) {
            oracles.push(json!({"name":"common_attribute_enforced","ok":false,"detail":format!("proof over credentials with different values of a declared common attribute accepted: {}", class)}));
        }
        let mut implv = out_bool_json(&v);
        implv["oracles"] = json!(oracles);
        let base = jv(&proof);
        emit(&verify_case(&format!("common/{}", k), &pool, &sc, &base, &nonce_dec, implv, json!({"alteration":"none","kind": if should_accept {"equal"} else {"different"}})));
        // the same proof, the verifier declaring the common attributes after the first / after all
        // sub-proof requests (seventh seeding round: a declaration made late was silently ignored)
        for (label, after) in [("declared-mid", 1usize), ("declared-last", ncred)] {
            let vl = verify_declared_after(&pool, &sc, &proof, &sc.nonce, after);
            let mut ol = vec![];
            if should_accept && !matches!(vl, Out::Ok(true)) {
                ol.push(json!({"name":"honest_proof_verifies","ok":false,"detail":format!("equal common values not accepted when the verifier declares the common attributes after {} sub-proof requests: {} {} {}", after, vl.tag(), vl.msg(), class)}));
            }
            if !should_accept && matches!(vl, Out::Ok(true)) {
                ol.push(json!({"name":"common_attribute_enforced","ok":false,"detail":format!("proof over credentials with different values of a declared common attribute accepted when the verifier declares it after {} sub-proof requests: {}", after, class)}));
            }
            let mut il = out_bool_json(&vl);
            il["oracles"] = json!(ol);
            emit(&verify_case(&format!("common/{}/{}", k, label), &pool, &sc, &base, &nonce_dec, il, json!({"alteration":"none","kind": label, "expect": should_accept})));
        }
        // adversarial variants on the proof document
        let attrs: Vec<&str> = sc.common.iter().map(|s| s.as_str()).collect();
        for a in attrs {
            // (1) copy sub-proof 0's response into sub-proof 1
            let mut p1 = base.clone();
            let m0 = p1.pointer(&format!("/proofs/0/primary_proof/eq_proof/m/{}", a)).cloned();
            if let Some(m0) = m0 {
                let differs = p1.pointer(&format!("/proofs/1/primary_proof/eq_proof/m/{}", a)) != Some(&m0);
                *p1.pointer_mut(&format!("/proofs/1/primary_proof/eq_proof/m/{}", a)).unwrap() = m0;
                if differs {
                    let res = match from_jv::<Proof>(&p1) { Ok(p) => verify(&pool, &sc, &p, &sc.nonce), Err(e) => Out::Err(e) };
                    let mut or = vec![];
                    if matches!(res, Out::Ok(true)) {
                        or.push(json!({"name":"common_attribute_enforced","ok":false,"detail":format!("accepted after copying the response for '{}' from sub-proof 0 into sub-proof 1 ({})", a, class)}));
                    }
                    let mut iv = out_bool_json(&res);
                    iv["oracles"] = json!(or);
                    emit(&verify_case(&format!("common/{}/copy-{}", k, a), &pool, &sc, &p1, &nonce_dec, iv, json!({"alteration":"copied_mhat"})));
                }
            }
            // (2) omit the response in the last sub-proof
            let mut p2 = base.clone();
            let last = ncred - 1;
            if let Some(m) = p2.pointer_mut(&format!("/proofs/{}/primary_proof/eq_proof/m", last)).and_then(|m| m.as_object_mut()) {
                m.remove(a);
                let res = match from_jv::<Proof>(&p2) { Ok(p) => verify(&pool, &sc, &p, &sc.nonce), Err(e) => Out::Err(e) };
                let mut or = vec![];
                if matches!(res, Out::Ok(true)) {
                    or.push(json!({"name":"common_attribute_enforced","ok":false,"detail":format!("accepted although sub-proof {} lacks the response for '{}'", last, a)}));
                }
                let mut iv = out_bool_json(&res);
                iv["oracles"] = json!(or);
                emit(&verify_case(&format!("common/{}/omit-{}", k, a), &pool, &sc, &p2, &nonce_dec, iv, json!({"alteration":"omitted_mhat"})));
            }
        }
        // (3) verifier uses another order of sub-proof requests than the prover
        if ncred >= 2 {
            let mut sc2 = Scenario { held: vec![], reqs: sc.reqs.clone(), common: sc.common.clone(), nonce: bn::BigNumber::from_dec(&nonce_dec).map_err(|e| e.to_string())? };
            let _ = &mut sc2;
            let mut p3 = base.clone();
            p3["proofs"].as_array_mut().unwrap().swap(0, 1);
            let res = match from_jv::<Proof>(&p3) { Ok(p) => verify(&pool, &sc, &p, &sc.nonce), Err(e) => Out::Err(e) };
            // swapping two sub-proofs is only harmless when the two requests and keys coincide
            let same = sc.held[0].cd_name == sc.held[1].cd_name && sc.reqs[0].to_json() == sc.reqs[1].to_json();
            let mut or = vec![];
            if !same && matches!(res, Out::Ok(true)) {
                or.push(json!({"name":"altered_proof_rejected","ok":false,"detail":"accepted after swapping sub-proofs 0 and 1 (subproofs swap)"}));
            }
            let mut iv = out_bool_json(&res);
            iv["oracles"] = json!(or);
            emit(&verify_case(&format!("common/{}/swap", k), &pool, &sc, &p3, &nonce_dec, iv, json!({"alteration":"subproofs swap"})));
        }
    }
    // (4) a dummy response: the verifier declares common an attribute that is NOT one of the hidden
    //     exponents of a sub-proof (its schema lacks it / the sub-proof reveals it).  The holder proves
    //     honestly with the link secret only and adds a copied entry to eq_proof.m of that sub-proof;
    //     nothing ties that entry to the credential, so the proof must be rejected.
    let nd = if thorough { 12 } else { 3 };
    for k in 0..nd {
        let link = dec_of_hex(&rng.hex_bits(255));
        let lacking = k % 2 == 0;
        let second = if lacking { "xyz_rev" } else { "pqr_norev" };
        let h0 = hold(&pool, "gvt_rev", &link, rng)?;
        let h1 = hold(&pool, second, &link, rng)?;
        let mut r0 = random_request(&h0, rng, true);
        r0.revealed.retain(|a| a != "name");
        r0.predicates.retain(|p| p.attr != "name");
        let mut r1 = random_request(&h1, rng, true);
        if !lacking {
            r1.predicates.retain(|p| p.attr != "name");
            if !r1.revealed.contains(&"name".to_string()) { r1.revealed.push("name".to_string()); }
        }
        let mut sc = Scenario { held: vec![h0, h1], reqs: vec![r0, r1], common: vec!["master_secret".to_string()], nonce: new_nonce().map_err(|e| e.to_string())? };
        let (_adds, proof) = prove(&pool, &sc);
        let proof = match proof {
            Out::Ok(p) => p,
            o => return Err(format!("common/dummy: honest proof could not be built: {} {}", o.tag(), o.msg())),
        };
        let nonce_dec = sc.nonce.to_dec().unwrap_or_default();
        let mut doc = jv(&proof);
        let m0 = doc.pointer("/proofs/0/primary_proof/eq_proof/m/name").cloned().ok_or("common/dummy: no response for name in sub-proof 0")?;
        doc.pointer_mut("/proofs/1/primary_proof/eq_proof/m").and_then(|m| m.as_object_mut()).ok_or("common/dummy: no m")?.insert("name".to_string(), m0);
        sc.common.push("name".to_string());
        let res = match from_jv::<Proof>(&doc) { Ok(p) => verify(&pool, &sc, &p, &sc.nonce), Err(e) => Out::Err(e) };
        let mut or = vec![];
        if matches!(res, Out::Ok(true)) {
            or.push(json!({"name":"common_attribute_enforced","ok":false,"detail":format!(
                "accepted although 'name' is declared common and sub-proof 1 ({}) {}: a response copied into eq_proof.m is not bound to the credential (dummy response)",
                second, if lacking { "has no such attribute in its schema" } else { "reveals it (another value)" })}));
        }
        let mut iv = out_bool_json(&res);
        iv["oracles"] = json!(or);
        emit(&verify_case(&format!("common/dummy/{}", k), &pool, &sc, &doc, &nonce_dec, iv,
            json!({"alteration":"dummy_mhat","kind": if lacking {"schema lacks the common attribute"} else {"sub-proof reveals the common attribute"}})));
    }
    Ok(())
}

/// C07: the model proves (harness-supplied randomness of the prescribed sizes), the library verifies
fn gen_refprove(thorough: bool, rng: &mut Rng) -> Result<(), String> {
    let pool = Pool::load()?;
    let names: Vec<String> = pool.defs.iter().map(|(n, _)| n.clone()).collect();
    let n = if thorough { 150 } else { 10 };
    for k in 0..n {
        let name = rng.pick(&names).clone();
        let cd = pool.get(&name);
        let link = dec_of_hex(&rng.hex_bits(255));
        let h = hold(&pool, &name, &link, rng)?;
        let req = random_request(&h, rng, true);
        let mut vals: BTreeMap<String, String> = h.known.clone();
        for (a, v) in &h.hidden { vals.insert(a.clone(), v.clone()); }
        let draw = |rng: &mut Rng, bits: usize| dec_of_hex(&rng.hex_bits(bits));
        let mut m_tilde = BTreeMap::new();
        for a in cd.attrs.iter().chain(cd.non_attrs.iter()) {
            if !req.revealed.contains(a) && a != "master_secret" {
                m_tilde.insert(a.clone(), draw(rng, 592));
            }
        }
        let common: BTreeMap<String, String> = [("master_secret".to_string(), draw(rng, 592))].into_iter().collect();
        let mut ptapes = vec![];
        for _ in &req.predicates {
            let mut r = BTreeMap::new();
            let mut ut = BTreeMap::new();
            let mut rt = BTreeMap::new();
            for i in 0..4 {
                r.insert(i.to_string(), draw(rng, 2128));
                ut.insert(i.to_string(), draw(rng, 592));
                rt.insert(i.to_string(), draw(rng, 672));
            }
            r.insert("DELTA".to_string(), draw(rng, 2128));
            rt.insert("DELTA".to_string(), draw(rng, 672));
            ptapes.push(json!({"r": r, "u_tilde": ut, "r_tilde": rt, "alpha_tilde": draw(rng, 2787)}));
        }
        let nonce = new_nonce().map_err(|e| e.to_string())?.to_dec().unwrap_or_default();
        emit(&json!({"id": format!("refprove/{}", k), "op": "prove",
            "in": {"backend": backend_str(), "mode": mode_str(), "pk": jv(&cd.pk)["p_key"], "sig": jv(&h.cred.sig)["p_credential"],
                   "values": vals, "schema": cd.attrs, "non_schema": cd.non_attrs, "req": req.to_json(), "common": common,
                   "tape": {"r": draw(rng, 2128), "e_tilde": draw(rng, 456), "v_tilde": draw(rng, 3060), "m_tilde": m_tilde,
                            "m2_tilde": draw(rng, 2432), "preds": ptapes},
                   "nonce": nonce},
            "impl": {"exec": {"op": "verify_proof", "in": {"def": name, "req": req.to_json(), "common": ["master_secret"], "nonce": nonce}}, "expect_accept": true},
            "class": {"kind": "reference-prover", "npred": req.predicates.len(), "nrevealed": req.revealed.len(), "def": name}}));
    }
    // several credentials of one holder, one challenge (the model's proveMulti), common link secret
    let nm = if thorough { 40 } else { 4 };
    for k in 0..nm {
        let ncred = 2 + (k % 2);
        let link = dec_of_hex(&rng.hex_bits(255));
        let draw = |rng: &mut Rng, bits: usize| dec_of_hex(&rng.hex_bits(bits));
        let seed = draw(rng, 592);
        let mut creds = vec![];
        let mut defs = vec![];
        let mut reqs = vec![];
        let mut npred = 0;
        for _ in 0..ncred {
            let name = rng.pick(&names).clone();
            let cd = pool.get(&name);
            let h = hold(&pool, &name, &link, rng)?;
            let req = random_request(&h, rng, true);
            let mut vals: BTreeMap<String, String> = h.known.clone();
            for (a, v) in &h.hidden { vals.insert(a.clone(), v.clone()); }
            let mut m_tilde = BTreeMap::new();
            for a in cd.attrs.iter().chain(cd.non_attrs.iter()) {
                if !req.revealed.contains(a) && a != "master_secret" {
                    m_tilde.insert(a.clone(), draw(rng, 592));
                }
            }
            let mut ptapes = vec![];
            for _ in &req.predicates {
                let mut r = BTreeMap::new();
                let mut ut = BTreeMap::new();
                let mut rt = BTreeMap::new();
                for i in 0..4 {
                    r.insert(i.to_string(), draw(rng, 2128));
                    ut.insert(i.to_string(), draw(rng, 592));
                    rt.insert(i.to_string(), draw(rng, 672));
                }
                r.insert("DELTA".to_string(), draw(rng, 2128));
                rt.insert("DELTA".to_string(), draw(rng, 672));
                ptapes.push(json!({"r": r, "u_tilde": ut, "r_tilde": rt, "alpha_tilde": draw(rng, 2787)}));
            }
            npred += req.predicates.len();
            creds.push(json!({"pk": jv(&cd.pk)["p_key"], "sig": jv(&h.cred.sig)["p_credential"], "values": vals, "schema": cd.attrs,
                "non_schema": cd.non_attrs, "req": req.to_json(),
                "tape": {"r": draw(rng, 2128), "e_tilde": draw(rng, 456), "v_tilde": draw(rng, 3060), "m_tilde": m_tilde,
                         "m2_tilde": draw(rng, 2432), "preds": ptapes}}));
            defs.push(name.clone());
            reqs.push(req.to_json());
        }
        let nonce = new_nonce().map_err(|e| e.to_string())?.to_dec().unwrap_or_default();
        let common: BTreeMap<String, String> = [("master_secret".to_string(), seed)].into_iter().collect();
        emit(&json!({"id": format!("refprove/multi/{}", k), "op": "prove_multi",
            "in": {"backend": backend_str(), "mode": mode_str(), "common": common, "nonce": nonce, "creds": creds},
            "impl": {"exec": {"op": "verify_proof_multi", "in": {"defs": defs, "reqs": reqs, "common": ["master_secret"], "nonce": nonce}}, "expect_accept": true},
            "class": {"kind": "reference-prover-multi", "ncred": ncred, "npred": npred}}));
    }
    Ok(())
}

/// exec: verify a proof document against a fixture credential definition
pub fn exec(op: &str, inp: &Value) -> Option<Result<Value, String>> {
    match op {
        "verify_proof" => Some((|| {
            let cd = load_fixture(inp["def"].as_str().unwrap_or(""))?;
            let revealed: Vec<String> = from_jv(&inp["req"]["revealed"])?;
            let predicates: Vec<PredSpec> = inp["req"]["predicates"].as_array().map(|a| a.iter().map(|p| PredSpec {
                attr: p["attr_name"].as_str().unwrap_or("").to_string(), ptype: p["p_type"].as_str().unwrap_or("").to_string(),
                value: p["value"].as_i64().unwrap_or(0) as i32 }).collect()).unwrap_or_default();
            let req = ReqSpec { revealed, predicates };
            let common: Vec<String> = from_jv(&inp["common"])?;
            let nonce = bn::BigNumber::from_dec(inp["nonce"].as_str().unwrap_or("")).map_err(|e| e.to_string())?;
            let res: Out<bool> = match from_jv::<Proof>(&inp["proof"]) {
                Ok(p) => guard(|| {
                    let mut pv = Verifier::new_proof_verifier()?;
                    for a in &common { pv.add_common_attribute(a)?; }
                    pv.add_sub_proof_request(&req.build().map_err(|e| err_msg_s(&e))?, &cd.schema, &cd.non_schema, &cd.pk, None, None)?;
                    pv.verify(&p, &nonce)
                }),
                Err(e) => Out::Err(format!("decode: {}", e)),
            };
            Ok(out_bool_json(&res))
        })()),
        "verify_proof_multi" => Some((|| {
            let defs: Vec<String> = from_jv(&inp["defs"])?;
            let common: Vec<String> = from_jv(&inp["common"])?;
            let nonce = bn::BigNumber::from_dec(inp["nonce"].as_str().unwrap_or("")).map_err(|e| e.to_string())?;
            let mut cds = vec![];
            let mut reqs = vec![];
            for (i, d) in defs.iter().enumerate() {
                cds.push(load_fixture(d)?);
                let rj = &inp["reqs"][i];
                let revealed: Vec<String> = from_jv(&rj["revealed"])?;
                let predicates: Vec<PredSpec> = rj["predicates"].as_array().map(|a| a.iter().map(|p| PredSpec {
                    attr: p["attr_name"].as_str().unwrap_or("").to_string(), ptype: p["p_type"].as_str().unwrap_or("").to_string(),
                    value: p["value"].as_i64().unwrap_or(0) as i32 }).collect()).unwrap_or_default();
                reqs.push(ReqSpec { revealed, predicates });
            }
            let res: Out<bool> = match from_jv::<Proof>(&inp["proof"]) {
                Ok(p) => guard(|| {
                    let mut pv = Verifier::new_proof_verifier()?;
                    for a in &common { pv.add_common_attribute(a)?; }
                    for (cd, req) in cds.iter().zip(reqs.iter()) {
                        pv.add_sub_proof_request(&req.build().map_err(|e| err_msg_s(&e))?, &cd.schema, &cd.non_schema, &cd.pk, None, None)?;
                    }
                    pv.verify(&p, &nonce)
                }),
                Err(e) => Out::Err(format!("decode: {}", e)),
            };
            Ok(out_bool_json(&res))
        })()),
        _ => None,
    }
}

pub fn gen(stream: &str, thorough: bool, rng: &mut Rng) -> Option<Result<(), String>> {
    match stream {
        "pres" => Some(gen_pres(thorough, rng)),
        "refprove" => Some(gen_refprove(thorough, rng)),
        "common" => Some(gen_common(thorough, rng)),
        "predgrid" => Some(gen_predgrid(thorough, rng)),
        "tamper" => Some(crate::tamper::gen_tamper(thorough, rng, false)),
        "tamper_ne" => Some(crate::tamper::gen_tamper(thorough, rng, true)),
        _ => None,
    }
}
