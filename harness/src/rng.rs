//! SplitMix64: every random choice of a run derives from one seed.
#[derive(Clone, Debug)]
pub struct Rng(pub u64);

impl Rng {
    pub fn new(seed: u64) -> Self {
        Rng(seed ^ 0x9E37_79B9_7F4A_7C15)
    }
    pub fn next(&mut self) -> u64 {
        self.0 = self.0.wrapping_add(0x9E37_79B9_7F4A_7C15);
        let mut z = self.0;
        z = (z ^ (z >> 30)).wrapping_mul(0xBF58_476D_1CE4_E5B9);
        z = (z ^ (z >> 27)).wrapping_mul(0x94D0_49BB_1331_11EB);
        z ^ (z >> 31)
    }
    /// uniform in [0, n)
    pub fn below(&mut self, n: u64) -> u64 {
        if n == 0 {
            0
        } else {
            self.next() % n
        }
    }
    /// uniform in [lo, hi]
    pub fn range(&mut self, lo: i64, hi: i64) -> i64 {
        lo + self.below((hi - lo + 1) as u64) as i64
    }
    pub fn chance(&mut self, num: u64, den: u64) -> bool {
        self.below(den) < num
    }
    pub fn pick<'a, T>(&mut self, xs: &'a [T]) -> &'a T {
        &xs[self.below(xs.len() as u64) as usize]
    }
    pub fn fork(&mut self) -> Rng {
        Rng(self.next())
    }
    pub fn bytes(&mut self, n: usize) -> Vec<u8> {
        (0..n).map(|_| self.next() as u8).collect()
    }
    /// hex string of a random integer of exactly up to `bits` bits
    pub fn hex_bits(&mut self, bits: usize) -> String {
        if bits == 0 {
            return "0".into();
        }
        let nbytes = (bits + 7) / 8;
        let mut b = self.bytes(nbytes);
        let extra = nbytes * 8 - bits;
        b[0] &= 0xFFu8 >> extra;
        let s: String = b.iter().map(|x| format!("{:02X}", x)).collect();
        let t = s.trim_start_matches('0');
        if t.is_empty() {
            "0".into()
        } else {
            t.into()
        }
    }
}
