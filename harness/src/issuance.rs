//! issuance handshake: C04 (issued signatures), C05 (both sides reject inconsistent messages),
//! C06 (credential definitions), plus exec ops for artefacts produced by the model.
use crate::fixtures::*;
use crate::pres::{backend_str, big_value, dec_of_hex, int_value, Pool};
use crate::reg::mode_str;
use crate::rng::Rng;
use crate::tamper::dec_add;
use crate::util::*;
use anoncreds_clsignatures::*;
use serde_json::{json, Value};
use std::collections::{BTreeMap, BTreeSet};

pub struct Session {
    pub cd_name: String,
    pub prover_id: String,
    pub known: CredentialValues,
    pub hidden: CredentialValues,
    pub all: CredentialValues,
    pub nonce: Nonce,
    pub inonce: Nonce,
    pub blinded: BlindedCredentialSecrets,
    pub factors: CredentialSecretsBlindingFactors,
    pub bproof: BlindedCredentialSecretsCorrectnessProof,
    pub sig_raw: CredentialSignature,
    pub sproof: SignatureCorrectnessProof,
}

fn rand_values(cd: &CredDef, rng: &mut Rng, with_commitment: bool) -> Result<(CredentialValues, CredentialValues), String> {
    let e = |x: Error| x.to_string();
    let mut kb = Issuer::new_credential_values_builder().map_err(e)?;
    for a in &cd.attrs {
        let v = match rng.below(6) { 0 => "0".to_string(), 1 => int_value(rng).to_string(), _ => big_value(rng) };
        kb.add_dec_known(a, &v).map_err(e)?;
    }
    let mut hb = Issuer::new_credential_values_builder().map_err(e)?;
    for a in &cd.non_attrs {
        hb.add_dec_hidden(a, &dec_of_hex(&rng.hex_bits(if a == "master_secret" { 255 } else { 200 }))).map_err(e)?;
    }
    if with_commitment {
        // a commitment to an attribute the issuer also knows (the key needs an R for it)
        hb.add_dec_commitment(&cd.attrs[0], &dec_of_hex(&rng.hex_bits(128)), &dec_of_hex(&rng.hex_bits(256))).map_err(e)?;
    }
    Ok((kb.finalize().map_err(e)?, hb.finalize().map_err(e)?))
}

pub fn honest_session(pool: &Pool, cd_name: &str, rng: &mut Rng, with_commitment: bool) -> Result<Session, String> {
    honest_session_n(pool, cd_name, rng, with_commitment, false)
}

/// `long_nonces`: both nonces are application-chosen long ones (128 / 256 bits)
pub fn honest_session_n(pool: &Pool, cd_name: &str, rng: &mut Rng, with_commitment: bool, long_nonces: bool) -> Result<Session, String> {
    let e = |x: Error| x.to_string();
    let cd = pool.get(cd_name);
    let (known, hidden) = rand_values(cd, rng, with_commitment)?;
    // nonces are application data: mostly the library's 80-bit ones, sometimes longer or shorter (every byte must be bound)
    let pick_nonce = |rng: &mut Rng| -> Result<Nonce, String> {
        match if long_nonces { rng.below(2) * 5 } else { rng.below(5) } {
            0 => bn::BigNumber::from_hex(&rng.hex_bits(128)).map_err(|x| x.to_string()),
            5 => bn::BigNumber::from_hex(&rng.hex_bits(256)).map_err(|x| x.to_string()),
            1 => { let bits = if rng.chance(1, 2) { 256 } else { 24 }; bn::BigNumber::from_hex(&rng.hex_bits(bits)).map_err(|x| x.to_string()) }
            _ => new_nonce().map_err(|x| x.to_string()),
        }
    };
    let nonce = pick_nonce(rng)?;
    let (blinded, factors, bproof) = Prover::blind_credential_secrets(&cd.pk, &cd.kcp, &hidden, &nonce).map_err(e)?;
    let inonce = pick_nonce(rng)?;
    let prover_id = format!("prover-{}", rng.hex_bits(40));
    let (sig_raw, sproof) = Issuer::sign_credential(&prover_id, &blinded, &bproof, &nonce, &inonce, &known, &cd.pk, &cd.sk).map_err(e)?;
    // the issuer-known value wins over the holder's commitment entry for the same attribute
    let all = hidden.merge(&known).map_err(e)?;
    Ok(Session { cd_name: cd_name.to_string(), prover_id, known, hidden, all, nonce, inonce, blinded, factors, bproof, sig_raw, sproof })
}

fn status_json<T>(o: &Out<T>) -> Value {
    json!({"status": o.tag(), "msg": o.msg()})
}

fn process(cd: &CredDef, sig: &CredentialSignature, all: &CredentialValues, sproof: &SignatureCorrectnessProof,
           factors: &CredentialSecretsBlindingFactors, pk: &CredentialPublicKey, inonce: &Nonce) -> Out<CredentialSignature> {
    let _ = cd;
    guard(|| {
        let mut s = sig.try_clone()?;
        Prover::process_credential_signature(&mut s, all, sproof, factors, pk, inonce, None, None, None)?;
        Ok::<_, Error>(s)
    })
}

fn bump_path(doc: &Value, path: &str, d: i64) -> Option<Value> {
    let mut v = doc.clone();
    let t = v.pointer_mut(path)?;
    let s = t.as_str()?.to_string();
    *t = json!(dec_add(&s, d));
    Some(v)
}

fn map_keys(doc: &Value, path: &str) -> Vec<String> {
    doc.pointer(path).and_then(|m| m.as_object()).map(|m| m.keys().cloned().collect()).unwrap_or_default()
}

fn gen_issue(thorough: bool, rng: &mut Rng) -> Result<(), String> {
    let pool = Pool::load()?;
    let names: Vec<String> = pool.defs.iter().map(|(n, _)| n.clone()).collect();
    let n = if thorough { 300 } else { 24 };
    let mut es: Vec<String> = vec![];
    let mut vpps: Vec<String> = vec![];
    let mut sessions: Vec<Session> = vec![];
    for k in 0..n {
        let name = rng.pick(&names).clone();
        let cd = pool.get(&name);
        let wc = rng.chance(1, 4);
        // the first session (one of those whose messages are altered field by field) has long nonces
        let s = honest_session_n(&pool, &name, rng, wc, k == 0)?;
        let pkj = jv(&cd.pk)["p_key"].clone();
        // ---- C05/C07: the issuer's check, as the model sees it
        emit(&json!({"id": format!("issue/{}/blinded", k), "op": "blinded_check",
            "in": {"backend": backend_str(), "pk": pkj, "blinded": jv(&s.blinded), "proof": jv(&s.bproof), "nonce": s.nonce.to_dec().unwrap_or_default()},
            "impl": {"status": "ok", "valid": true, "oracles": []}, "class": {"kind": "honest", "def": name}}));
        // ---- C04: the issued signature
        let sigj_raw = jv(&s.sig_raw);
        let vpp = sigj_raw["p_credential"]["v"].as_str().unwrap_or("").to_string();
        let e_dec = sigj_raw["p_credential"]["e"].as_str().unwrap_or("").to_string();
        let processed = process(cd, &s.sig_raw, &s.all, &s.sproof, &s.factors, &cd.pk, &s.inonce);
        let mut oracles = vec![];
        if !processed.is_ok() {
            oracles.push(json!({"name":"holder_accepts_issued","ok":false,"detail":format!("process_credential_signature refused an honestly issued signature: {} {}", processed.tag(), processed.msg())}));
        }
        if es.contains(&e_dec) { oracles.push(json!({"name":"fresh_e","ok":false,"detail":"e repeated across credentials"})); }
        if vpps.contains(&vpp) { oracles.push(json!({"name":"fresh_v","ok":false,"detail":"v'' repeated across credentials"})); }
        es.push(e_dec);
        vpps.push(vpp.clone());
        if let Out::Ok(post) = &processed {
            emit(&json!({"id": format!("issue/{}/sig", k), "op": "sig_check",
                "in": {"backend": backend_str(), "pk": pkj, "sig": jv(post)["p_credential"], "values": jv(&s.all),
                       "proof": jv(&s.sproof), "nonce": s.inonce.to_dec().unwrap_or_default(),
                       "prover_id": s.prover_id, "rev_idx": Value::Null, "vpp": vpp},
                "impl": {"status": "ok", "oracles": oracles}, "class": {"kind": "honest", "def": name}}));
        } else {
            emit(&json!({"id": format!("issue/{}/sig", k), "op": "issue_failed", "in": {}, "impl": {"status": "err", "oracles": oracles}, "class": {"kind":"honest"}}));
        }
        sessions.push(s);
    }
    // ---- a schema attribute the holder only COMMITS to and the issuer does not supply: a commitment is
    //      not part of U and is never signed, so the issuer must refuse ("value not provided") instead of
    //      issuing a signature that lacks R_attr^m (seventh seeding round: coverage check relaxed)
    for k in 0..(if thorough { 6 } else { 2 }) {
        let name = rng.pick(&names).clone();
        let cd = pool.get(&name);
        let e = |x: Error| x.to_string();
        let (_known_all, hidden) = rand_values(cd, rng, true)?;          // commitment to cd.attrs[0]
        let mut kb = Issuer::new_credential_values_builder().map_err(e)?;
        for a in cd.attrs.iter().skip(1) {
            kb.add_dec_known(a, &int_value(rng).to_string()).map_err(e)?;
        }
        let known_without = kb.finalize().map_err(e)?;
        let nonce = new_nonce().map_err(e)?;
        let (blinded, _factors, bproof) = Prover::blind_credential_secrets(&cd.pk, &cd.kcp, &hidden, &nonce).map_err(e)?;
        let inonce = new_nonce().map_err(e)?;
        let r = guard(|| Issuer::sign_credential("prover-uncovered", &blinded, &bproof, &nonce, &inonce, &known_without, &cd.pk, &cd.sk));
        let mut oracles = vec![];
        if r.is_ok() {
            oracles.push(json!({"name":"issuer_covers_every_attribute","ok":false,"detail":format!("sign_credential issued a signature although the issuer's values lack the schema attribute '{}' (the holder only sent a commitment to it): the signature does not cover R_{}", cd.attrs[0], cd.attrs[0])}));
        }
        if matches!(r, Out::Panic(_)) {
            oracles.push(json!({"name":"issuer_no_panic","ok":false,"detail":format!("sign_credential panicked on an uncovered committed attribute: {}", r.msg())}));
        }
        emit(&json!({"id": format!("issue/uncovered-committed/{}", k), "op": "issue_failed", "in": {},
            "impl": {"status": r.tag(), "oracles": oracles}, "class": {"kind": "uncovered_committed_attribute", "def": name}}));
    }
    // ---- with a revocation index: m2 depends on it
    {
        let cd = pool.get("gvt_rev");
        for (k, idx) in [1u32, 2, 7, 0x7fff_ffff, 0x8000_0000, u32::MAX - 1].iter().enumerate() {
            let l = if *idx > 100 { *idx } else { 10 };
            // a registry of that size cannot be built for huge L: only m2 is of interest, so sign
            // against a small registry when the index is small, and otherwise check only the
            // context through a by-default registry whose accumulator is not needed
            if *idx > 100 { continue; }
            let mut rc = RegCtx::new(cd, l, false)?;
            let s = honest_session(&pool, "gvt_rev", rng, false)?;
            let r = guard(|| Issuer::sign_credential_with_revoc(&s.prover_id, &s.blinded, &s.bproof, &s.nonce, &s.inonce, &s.known, &cd.pk, &cd.sk,
                                                             *idx, l, false, &mut rc.reg, &rc.key_priv));
            if let Out::Ok((sig, sproof, witness, _)) = r {
                let vpp = jv(&sig)["p_credential"]["v"].as_str().unwrap_or("").to_string();
                let post = guard(|| {
                    let mut sg = sig.try_clone()?;
                    Prover::process_credential_signature(&mut sg, &s.all, &sproof, &s.factors, &cd.pk, &s.inonce, Some(&rc.key_pub), Some(&rc.reg), Some(&witness))?;
                    Ok::<_, Error>(sg)
                });
                let mut oracles = vec![];
                if !post.is_ok() {
                    oracles.push(json!({"name":"holder_accepts_issued","ok":false,"detail":format!("process_credential_signature (with revocation) refused: {}", post.msg())}));
                }
                if let Out::Ok(p) = post {
                    emit(&json!({"id": format!("issue/rev/{}", k), "op": "sig_check",
                        "in": {"backend": backend_str(), "pk": jv(&cd.pk)["p_key"], "sig": jv(&p)["p_credential"], "values": jv(&s.all),
                               "proof": jv(&sproof), "nonce": s.inonce.to_dec().unwrap_or_default(),
                               "prover_id": s.prover_id, "rev_idx": idx, "vpp": vpp},
                        "impl": {"status": "ok", "oracles": oracles}, "class": {"kind": "honest-revoc", "def": "gvt_rev"}}));
                }
            }
        }
    }
    // ---- C05: every field altered one at a time, on a few sessions
    let nalt = if thorough { 12 } else { 2 };
    for (si, s) in sessions.iter().take(nalt).enumerate() {
        let cd = pool.get(&s.cd_name);
        let pkj = jv(&cd.pk)["p_key"].clone();
        let other = &sessions[(si + 1) % sessions.len()];
        // (a) holder -> issuer: blinded secrets, their proof, the nonce
        let bj = jv(&s.blinded);
        let pj = jv(&s.bproof);
        let mut alts: Vec<(String, Value, Value, i64)> = vec![];
        for d in [1i64, -1] {
            if let Some(v) = bump_path(&bj, "/u", d) { alts.push((format!("blinded.u{:+}", d), v, pj.clone(), 0)); }
            if let Some(v) = bump_path(&pj, "/c", d) { alts.push((format!("bproof.c{:+}", d), bj.clone(), v, 0)); }
            if let Some(v) = bump_path(&pj, "/v_dash_cap", d) { alts.push((format!("bproof.v_dash_cap{:+}", d), bj.clone(), v, 0)); }
        }
        for k in map_keys(&pj, "/m_caps") {
            if let Some(v) = bump_path(&pj, &format!("/m_caps/{}", k), 1) { alts.push((format!("bproof.m_caps[{}]+1", k), bj.clone(), v, 0)); }
            let mut v = pj.clone();
            v["m_caps"].as_object_mut().unwrap().remove(&k);
            alts.push((format!("bproof.m_caps remove {}", k), bj.clone(), v, 0));
        }
        for k in map_keys(&pj, "/r_caps") {
            if let Some(v) = bump_path(&pj, &format!("/r_caps/{}", k), 1) { alts.push((format!("bproof.r_caps[{}]+1", k), bj.clone(), v, 0)); }
        }
        for k in map_keys(&bj, "/committed_attributes") {
            if let Some(v) = bump_path(&bj, &format!("/committed_attributes/{}", k), 1) { alts.push((format!("blinded.committed[{}]+1", k), v, pj.clone(), 0)); }
        }
        {
            // a commitment the proof says nothing about (added to the message): must be refused
            let mut v = bj.clone();
            if let Some(m) = v["committed_attributes"].as_object_mut() {
                m.insert("zz_uncovered_commitment".to_string(), json!(pkj["s"].as_str().unwrap_or("4")));
                alts.push(("blinded.committed add uncovered".into(), v, pj.clone(), 0));
            }
            let mut v = bj.clone();
            if let Some(m) = v["committed_attributes"].as_object_mut() {
                m.insert(cd.attrs[0].clone(), json!(pkj["z"].as_str().unwrap_or("4")));
                alts.push(("blinded.committed add uncovered schema attr".into(), v, pj.clone(), 0));
            }
        }
        {
            // hidden attribute set: drop one / add one
            let mut v = bj.clone();
            let arr = v["hidden_attributes"].as_array_mut().unwrap();
            if !arr.is_empty() { arr.remove(0); alts.push(("blinded.hidden remove first".into(), v, pj.clone(), 0)); }
            let mut v = bj.clone();
            v["hidden_attributes"].as_array_mut().unwrap().push(json!(cd.attrs[0].clone()));
            alts.push(("blinded.hidden add schema attr".into(), v, pj.clone(), 0));
            // values of another session
            alts.push(("blinded from other session".into(), jv(&other.blinded), pj.clone(), 0));
            alts.push(("bproof from other session".into(), bj.clone(), jv(&other.bproof), 0));
        }
        alts.push(("credential_nonce+1".into(), bj.clone(), pj.clone(), 1));
        for (ai, (name, b2, p2, nd)) in alts.into_iter().enumerate() {
            let nonce_dec = dec_add(&s.nonce.to_dec().unwrap_or_default(), nd);
            let nonce2 = bn::BigNumber::from_dec(&nonce_dec).map_err(|e| e.to_string())?;
            let res: Out<()> = match (from_jv::<BlindedCredentialSecrets>(&b2), from_jv::<BlindedCredentialSecretsCorrectnessProof>(&p2)) {
                (Ok(b), Ok(p)) => guard(|| Issuer::sign_credential(&s.prover_id, &b, &p, &nonce2, &s.inonce, &s.known, &cd.pk, &cd.sk).map(|_| ())),
                _ => Out::Err("decode".into()),
            };
            // the check function on its own (hook): later stages of sign_credential must not mask its verdict
            let chk: Out<()> = match (from_jv::<BlindedCredentialSecrets>(&b2), from_jv::<BlindedCredentialSecretsCorrectnessProof>(&p2), from_jv::<CredentialPrimaryPublicKey>(&pkj)) {
                (Ok(b), Ok(p), Ok(ppk)) => guard(|| Issuer::verif_check_blinded_credential_secrets_correctness_proof(&b, &p, &nonce2, &ppk)),
                _ => Out::Err("decode".into()),
            };
            let mut oracles = vec![];
            let same_cd_other = name.contains("other session") && other.cd_name != s.cd_name;
            let _ = same_cd_other;
            if res.is_ok() {
                oracles.push(json!({"name":"issuer_rejects_altered","ok":false,"detail":format!("issuer signed after alteration '{}'", name)}));
            }
            if chk.is_ok() {
                oracles.push(json!({"name":"issuer_rejects_altered","ok":false,"detail":format!("the issuer's check of the blinded-secrets proof passed after alteration '{}'", name)}));
            }
            if matches!(chk, Out::Panic(_)) {
                oracles.push(json!({"name":"issuer_no_panic","ok":false,"detail":format!("the blinded-secrets check panicked after alteration '{}': {}", name, chk.msg())}));
            }
            if matches!(res, Out::Panic(_)) {
                oracles.push(json!({"name":"issuer_no_panic","ok":false,"detail":format!("sign_credential panicked after alteration '{}': {}", name, res.msg())}));
            }
            let res = chk;
            let cls: String = name.split('[').next().unwrap_or("").to_string();
            emit(&json!({"id": format!("issue/{}/alt-b/{}", si, ai), "op": "blinded_check",
                "in": {"backend": backend_str(), "pk": pkj, "blinded": b2, "proof": p2, "nonce": nonce_dec},
                "impl": {"status": res.tag(), "valid": res.is_ok(), "oracles": oracles}, "class": {"kind": "altered", "alteration": cls}}));
        }
        // (b) issuer -> holder: key proof and public key
        let kj = jv(&cd.kcp);
        let mut kalts: Vec<(String, Value, Value)> = vec![];
        for f in ["c", "xz_cap"] {
            if let Some(v) = bump_path(&kj, &format!("/{}", f), 1) { kalts.push((format!("kcp.{}+1", f), pkj.clone(), v)); }
        }
        let nx = kj["xr_cap"].as_array().map(|a| a.len()).unwrap_or(0);
        for i in 0..nx {
            if let Some(v) = bump_path(&kj, &format!("/xr_cap/{}/1", i), 1) { kalts.push((format!("kcp.xr_cap[{}]+1", i), pkj.clone(), v)); }
        }
        if nx >= 2 {
            let mut v = kj.clone();
            v["xr_cap"].as_array_mut().unwrap().swap(0, 1);
            kalts.push(("kcp.xr_cap swap order".into(), pkj.clone(), v));
            let mut v = kj.clone();
            v["xr_cap"].as_array_mut().unwrap().remove(0);
            kalts.push(("kcp.xr_cap remove first".into(), pkj.clone(), v));
        }
        for f in ["z", "s", "rctxt", "n"] {
            if let Some(v) = bump_path(&pkj, &format!("/{}", f), if f == "n" { 2 } else { 1 }) { kalts.push((format!("pk.{}+1", f), v, kj.clone())); }
        }
        for k in map_keys(&pkj, "/r") {
            if let Some(v) = bump_path(&pkj, &format!("/r/{}", k), 1) { kalts.push((format!("pk.r[{}]+1", k), v, kj.clone())); }
        }
        // an extra generator the proof does not cover (any name: only the legacy "master_secret" may be
        // missing from xr_cap, and the fixture proofs cover that one)
        for extra in ["link_secret", "linksecret", "master_secret2", "zz_extra", ""] {
            let mut v = pkj.clone();
            let val = if extra == "link_secret" { dec_add(pkj["n"].as_str().unwrap_or("0"), -1) } else { pkj["s"].as_str().unwrap_or("4").to_string() };
            v["r"].as_object_mut().unwrap().insert(extra.to_string(), json!(val));
            kalts.push((format!("pk.r add uncovered '{}'", extra), v, kj.clone()));
        }
        for (ai, (name, pk2, k2)) in kalts.into_iter().enumerate() {
            let mut full = jv(&cd.pk);
            full["p_key"] = pk2.clone();
            let res: Out<()> = match (from_jv::<CredentialPublicKey>(&full), from_jv::<CredentialKeyCorrectnessProof>(&k2)) {
                (Ok(pk), Ok(kp)) => guard(|| Prover::blind_credential_secrets(&pk, &kp, &s.hidden, &s.nonce).map(|_| ())),
                _ => Out::Err("decode".into()),
            };
            let mut oracles = vec![];
            if res.is_ok() {
                oracles.push(json!({"name":"holder_rejects_altered_key","ok":false,"detail":format!("blind_credential_secrets accepted after alteration '{}'", name)}));
            }
            if matches!(res, Out::Panic(_)) {
                oracles.push(json!({"name":"holder_no_panic","ok":false,"detail":format!("blind_credential_secrets panicked after alteration '{}': {}", name, res.msg())}));
            }
            let cls: String = name.split('[').next().unwrap_or("").to_string();
            emit(&json!({"id": format!("issue/{}/alt-k/{}", si, ai), "op": "key_proof_check",
                "in": {"backend": backend_str(), "pk": pk2, "proof": k2},
                "impl": {"status": res.tag(), "valid": res.is_ok(), "oracles": oracles}, "class": {"kind": "altered", "alteration": cls}}));
        }
        // (c) issuer -> holder: signature, its proof, nonce, values, blinding factor
        let sj = jv(&s.sig_raw);
        let spj = jv(&s.sproof);
        let vj = jv(&s.all);
        let fj = jv(&s.factors);
        let mut salts: Vec<(String, Value, Value, Value, Value, i64)> = vec![];
        for f in ["a", "e", "v", "m_2"] {
            if let Some(v) = bump_path(&sj, &format!("/p_credential/{}", f), if f == "e" { 2 } else { 1 }) { salts.push((format!("sig.{}+", f), v, spj.clone(), vj.clone(), fj.clone(), 0)); }
        }
        for f in ["se", "c"] {
            if let Some(v) = bump_path(&spj, &format!("/{}", f), 1) { salts.push((format!("sproof.{}+1", f), sj.clone(), v, vj.clone(), fj.clone(), 0)); }
        }
        if let Some(v) = bump_path(&fj, "/v_prime", 1) { salts.push(("factors.v_prime+1".into(), sj.clone(), spj.clone(), vj.clone(), v, 0)); }
        for k in map_keys(&vj, "/attrs_values") {
            for kind in ["Known", "Hidden"] {
                if let Some(v) = bump_path(&vj, &format!("/attrs_values/{}/{}/value", k, kind), 1) { salts.push((format!("values[{}]+1", k), sj.clone(), spj.clone(), v, fj.clone(), 0)); }
            }
        }
        salts.push(("issuance_nonce+1".into(), sj.clone(), spj.clone(), vj.clone(), fj.clone(), 1));
        salts.push(("signature from other session".into(), jv(&other.sig_raw), spj.clone(), vj.clone(), fj.clone(), 0));
        salts.push(("sproof from other session".into(), sj.clone(), jv(&other.sproof), vj.clone(), fj.clone(), 0));
        for (ai, (name, s2, sp2, v2, f2, nd)) in salts.into_iter().enumerate() {
            let nonce_dec = dec_add(&s.inonce.to_dec().unwrap_or_default(), nd);
            let nonce2 = bn::BigNumber::from_dec(&nonce_dec).map_err(|e| e.to_string())?;
            let dec = (from_jv::<CredentialSignature>(&s2), from_jv::<SignatureCorrectnessProof>(&sp2), from_jv::<CredentialValues>(&v2), from_jv::<CredentialSecretsBlindingFactors>(&f2));
            let (res, post): (Out<()>, Option<Value>) = match dec {
                (Ok(sg), Ok(sp), Ok(vals), Ok(fac)) => {
                    let r = guard(|| {
                        let mut x = sg.try_clone()?;
                        Prover::process_credential_signature(&mut x, &vals, &sp, &fac, &cd.pk, &nonce2, None, None, None)?;
                        Ok::<_, Error>(x)
                    });
                    // the model needs the signature as the holder sees it after adding v'
                    let vprime = f2["v_prime"].as_str().unwrap_or("0").to_string();
                    let mut postj = s2["p_credential"].clone();
                    let vsum = big_add(postj["v"].as_str().unwrap_or("0"), &vprime);
                    postj["v"] = json!(vsum);
                    (match r { Out::Ok(_) => Out::Ok(()), Out::Err(m) => Out::Err(m), Out::Panic(m) => Out::Panic(m) }, Some(postj))
                }
                _ => (Out::Err("decode".into()), None),
            };
            let mut oracles = vec![];
            if res.is_ok() {
                oracles.push(json!({"name":"holder_rejects_altered","ok":false,"detail":format!("process_credential_signature accepted after alteration '{}'", name)}));
            }
            if matches!(res, Out::Panic(_)) {
                oracles.push(json!({"name":"holder_no_panic","ok":false,"detail":format!("process_credential_signature panicked after alteration '{}': {}", name, res.msg())}));
            }
            if let Some(postj) = post {
                let cls: String = name.split('[').next().unwrap_or("").to_string();
                emit(&json!({"id": format!("issue/{}/alt-s/{}", si, ai), "op": "sig_check",
                    "in": {"backend": backend_str(), "pk": pkj, "sig": postj, "values": v2, "proof": sp2, "nonce": nonce_dec},
                    "impl": {"status": res.tag(), "oracles": oracles}, "class": {"kind": "altered", "alteration": cls}}));
            }
        }
        // (d) reference issuer (the model signs): honest / composite e / prime e outside the interval / wrong root
        let e_ok = bn::BigNumber::generate_prime_in_range(596, 119).map_err(|e| e.to_string())?;
        let e_high = bn::BigNumber::generate_prime_in_range(597, 119).map_err(|e| e.to_string())?;
        let e_low = bn::BigNumber::generate_prime_in_range(595, 119).map_err(|e| e.to_string())?;
        let mut e_comp = e_ok.add(&bn::BigNumber::from_u32(2).unwrap()).map_err(|e| e.to_string())?;
        while e_comp.is_prime().unwrap_or(false) {
            e_comp = e_comp.add(&bn::BigNumber::from_u32(2).unwrap()).map_err(|e| e.to_string())?;
        }
        // primes at the very ends of the prescribed interval [2^596, 2^596 + 2^119): the first / last one
        // inside (accepted) and the nearest ones outside, plus one in the next bit band
        let two = bn::BigNumber::from_u32(2).map_err(|e| e.to_string())?;
        let pow2 = |k: usize| -> Result<bn::BigNumber, String> { two.exp(&bn::BigNumber::from_u32(k).map_err(|e| e.to_string())?).map_err(|e| e.to_string()) };
        let lo = pow2(596)?;
        let hi = lo.add(&pow2(119)?).map_err(|e| e.to_string())?;
        let near_prime = |start: &bn::BigNumber, up: bool| -> Result<bn::BigNumber, String> {
            // start is even: first odd candidate on the requested side
            let one = bn::BigNumber::from_u32(1).map_err(|e| e.to_string())?;
            let mut c = if up { start.add(&one) } else { start.sub(&one) }.map_err(|e| e.to_string())?;
            while !c.is_prime().unwrap_or(false) {
                c = if up { c.add(&two) } else { c.sub(&two) }.map_err(|e| e.to_string())?;
            }
            Ok(c)
        };
        let e_first_in = near_prime(&lo, true)?;
        let e_last_below = near_prime(&lo, false)?;
        let e_last_in = near_prime(&hi, false)?;
        let e_first_above = near_prime(&hi, true)?;
        let e_next_band = near_prime(&hi.add(&bn::BigNumber::from_hex(&format!("{}0", rng.hex_bits(112))).map_err(|e| e.to_string())?).map_err(|e| e.to_string())?, true)?;
        let skj = jv(&cd.sk);
        let known_map: BTreeMap<String, String> = jv(&s.known)["attrs_values"].as_object().map(|m| m.iter().map(|(k, v)| (k.clone(), v["Known"]["value"].as_str().unwrap_or("0").to_string())).collect()).unwrap_or_default();
        for (vi, (variant, e, wrong_root, accept)) in [("honest", &e_ok, "0", true), ("composite_e", &e_comp, "0", false), ("prime_e_above", &e_high, "0", false),
                                              ("prime_e_below", &e_low, "0", false), ("wrong_root", &e_ok, "3", false),
                                              ("prime_e_first_inside", &e_first_in, "0", true), ("prime_e_last_inside", &e_last_in, "0", true),
                                              ("prime_e_last_below", &e_last_below, "0", false), ("prime_e_first_above", &e_first_above, "0", false),
                                              ("prime_e_next_bit_band", &e_next_band, "0", false)].iter().enumerate() {
            let vpp = format!("{}", dec_of_hex(&format!("8{}", rng.hex_bits(2720))));
            emit(&json!({"id": format!("issue/{}/ref/{}", si, vi), "op": "sign",
                "in": {"backend": backend_str(), "pk": pkj, "p": skj["p_key"]["p"], "q": skj["p_key"]["q"], "u": bj["u"],
                       "m2": dec_of_hex(&rng.hex_bits(250)), "known": known_map, "e": e.to_dec().unwrap_or_default(), "vpp": vpp,
                       "r": dec_of_hex(&rng.hex_bits(2000)), "nonce": s.inonce.to_dec().unwrap_or_default(), "wrong_root": wrong_root},
                "impl": {"exec": {"op": "process_sig", "in": {"def": s.cd_name, "values": vj, "factors": fj, "nonce": s.inonce.to_dec().unwrap_or_default()}},
                         "expect_accept": accept, "variant": variant},
                "class": {"kind": "reference-issuer", "variant": variant}}));
        }
        // (e) reference holder (the model blinds and proves): the real issuer must sign
        {
            let hidden_map: BTreeMap<String, String> = jv(&s.hidden)["attrs_values"].as_object().map(|m| m.iter().filter(|(_, v)| !v["Hidden"].is_null()).map(|(k, v)| (k.clone(), v["Hidden"]["value"].as_str().unwrap_or("0").to_string())).collect()).unwrap_or_default();
            let mt: BTreeMap<String, String> = hidden_map.keys().map(|k| (k.clone(), dec_of_hex(&rng.hex_bits(593)))).collect();
            emit(&json!({"id": format!("issue/{}/refholder", si), "op": "blind_prove",
                "in": {"backend": backend_str(), "pk": pkj, "hidden": hidden_map, "v_prime": dec_of_hex(&rng.hex_bits(2128)),
                       "v_dash_tilde": dec_of_hex(&rng.hex_bits(673)), "m_tilde": mt, "nonce": s.nonce.to_dec().unwrap_or_default()},
                "impl": {"exec": {"op": "sign_for", "in": {"def": s.cd_name, "known": jv(&s.known), "nonce": s.nonce.to_dec().unwrap_or_default()}}, "expect_accept": true},
                "class": {"kind": "reference-holder"}}));
        }
    }
    let _ = mode_str();
    Ok(())
}

/// decimal addition of two non-negative decimal strings
pub fn big_add(a: &str, b: &str) -> String {
    if a.starts_with('-') || b.starts_with('-') {
        // fall back to i128 when small; alterations never make these negative in practice
        if let (Ok(x), Ok(y)) = (a.parse::<i128>(), b.parse::<i128>()) {
            return (x + y).to_string();
        }
    }
    let (x, y): (Vec<u8>, Vec<u8>) = (a.bytes().rev().map(|c| c - b'0').collect(), b.bytes().rev().map(|c| c - b'0').collect());
    let mut out = vec![];
    let mut carry = 0u8;
    for i in 0..x.len().max(y.len()) {
        let s = x.get(i).copied().unwrap_or(0) + y.get(i).copied().unwrap_or(0) + carry;
        out.push(s % 10);
        carry = s / 10;
    }
    if carry > 0 { out.push(carry); }
    let s: String = out.iter().rev().map(|d| (b'0' + d) as char).collect();
    let t = s.trim_start_matches('0');
    if t.is_empty() { "0".into() } else { t.into() }
}

/// C06: fresh credential definitions, checked by the model's independent oracle
fn gen_keygen(thorough: bool, rng: &mut Rng) -> Result<(), String> {
    let n = if thorough { 8 } else { 2 };
    for k in 0..n {
        let nattrs = 1 + rng.below(if thorough { 15 } else { 6 }) as usize;
        let mut attrs: BTreeSet<String> = BTreeSet::new();
        while attrs.len() < nattrs {
            attrs.insert(format!("attr_{}", rng.hex_bits(24).to_lowercase()));
        }
        let mut non: BTreeSet<String> = BTreeSet::new();
        non.insert("master_secret".to_string());
        if rng.chance(1, 2) { non.insert("policy".to_string()); }
        // overlapping schema / non-schema name
        if rng.chance(1, 3) { non.insert(attrs.iter().next().unwrap().clone()); }
        let revoc = k % 2 == 0;
        let attrs_v: Vec<String> = attrs.iter().cloned().collect();
        let non_v: Vec<String> = non.iter().cloned().collect();
        let t0 = std::time::Instant::now();
        let cd = CredDef::generate(&attrs_v, &non_v, revoc)?;
        let secs = t0.elapsed().as_secs_f64();
        let pkj = jv(&cd.pk);
        let skj = jv(&cd.sk);
        let mut oracles = vec![];
        // exactly one R per schema ∪ non-schema attribute
        let want: BTreeSet<String> = attrs.union(&non).cloned().collect();
        let got: BTreeSet<String> = pkj["p_key"]["r"].as_object().map(|m| m.keys().cloned().collect()).unwrap_or_default();
        if want != got {
            oracles.push(json!({"name":"one_r_per_attribute","ok":false,"detail":format!("key has R for {:?}, schema ∪ non-schema is {:?}", got, want)}));
        }
        if revoc != !pkj["r_key"].is_null() || revoc != !skj["r_key"].is_null() {
            oracles.push(json!({"name":"revocation_part_presence","ok":false,"detail":"revocation key part does not match support_revocation"}));
        }
        // a freshly generated key proof names EVERY generator of the key (the legacy exemption of the holder's
        // check is for old proofs only: a new key whose master_secret generator is not covered is not proven well-formed)
        {
            let named: BTreeSet<String> = jv(&cd.kcp)["xr_cap"].as_array().map(|a| a.iter().filter_map(|e| e[0].as_str().map(|x| x.to_string())).collect()).unwrap_or_default();
            if named != got {
                oracles.push(json!({"name":"key_proof_covers_all","ok":false,"detail":format!("the generated key-correctness proof names {:?}, the key has generators {:?}: not covered {:?}", named, got, got.difference(&named).collect::<Vec<_>>())}));
            }
        }
        // the library's own holder accepts the key proof
        let hidden = { let mut b = Issuer::new_credential_values_builder().unwrap(); for a in &non_v { b.add_dec_hidden(a, "5").unwrap(); } b.finalize().unwrap() };
        let nonce = new_nonce().map_err(|e| e.to_string())?;
        let r = guard(|| Prover::blind_credential_secrets(&cd.pk, &cd.kcp, &hidden, &nonce).map(|_| ()));
        if !r.is_ok() {
            oracles.push(json!({"name":"key_proof_accepted","ok":false,"detail":format!("blind_credential_secrets refused the generated key proof: {}", r.msg())}));
        }
        // revocation key correspondence pk = g^sk, y = h_cap^x; generators non-identity and pairwise distinct
        if revoc {
            use anoncreds_clsignatures::verif as vf;
            let rk = &pkj["r_key"];
            let g1 = |f: &str| vf::PointG1::from_string(rk[f].as_str().unwrap_or(""));
            let g2 = |f: &str| vf::PointG2::from_string(rk[f].as_str().unwrap_or(""));
            let sc = |f: &str| vf::GroupOrderElement::from_string(skj["r_key"][f].as_str().unwrap_or(""));
            if let (Ok(g), Ok(pk), Ok(hcap), Ok(y), Ok(x), Ok(sk)) = (g1("g"), g1("pk"), g2("h_cap"), g2("y"), sc("x"), sc("sk")) {
                if g.mul(&sk).map(|p| p != pk).unwrap_or(true) {
                    oracles.push(json!({"name":"rev_key_corresponds","ok":false,"detail":"pk != g^sk"}));
                }
                if hcap.mul(&x).map(|p| p != y).unwrap_or(true) {
                    oracles.push(json!({"name":"rev_key_corresponds","ok":false,"detail":"y != h_cap^x"}));
                }
            } else {
                oracles.push(json!({"name":"rev_key_corresponds","ok":false,"detail":"revocation key elements do not decode"}));
            }
            let g1s: Vec<String> = ["g", "h", "h0", "h1", "h2", "htilde", "pk"].iter().map(|f| rk[*f].as_str().map(crate::issuance::g1_canon).unwrap_or_default()).collect();
            let g2s: Vec<String> = ["g_dash", "h_cap", "u", "y"].iter().map(|f| rk[*f].as_str().map(crate::reg::g2_canon).unwrap_or_default()).collect();
            for set in [&g1s, &g2s] {
                let uniq: BTreeSet<&String> = set.iter().collect();
                if uniq.len() != set.len() || set.iter().any(|s| s == "inf" || s.starts_with("undecodable")) {
                    oracles.push(json!({"name":"rev_generators_distinct","ok":false,"detail":"revocation key generators are not pairwise distinct non-identity points"}));
                }
            }
        }
        emit(&json!({"id": format!("keygen/{}", k), "op": "key_check",
            "in": {"pk": pkj["p_key"], "p": skj["p_key"]["p"], "q": skj["p_key"]["q"]},
            "impl": {"status": "ok", "oracles": oracles, "attrs": want, "seconds": secs, "backend": backend_str()},
            "class": {"nattrs": nattrs, "revoc": revoc, "backend": backend_str()}}));
        emit(&json!({"id": format!("keygen/{}/kcp", k), "op": "key_proof_check",
            "in": {"backend": backend_str(), "pk": pkj["p_key"], "proof": jv(&cd.kcp)},
            "impl": {"status": "ok", "valid": true, "oracles": []}, "class": {"kind": "honest", "def": "fresh"}}));
    }
    Ok(())
}

pub fn g1_canon(s: &str) -> String {
    use anoncreds_clsignatures::verif as vf;
    match vf::PointG1::from_string_inf(s) {
        Ok(p) => if p.is_inf().unwrap_or(false) { "inf".into() } else { hex(&p.to_bytes().unwrap_or_default()) },
        Err(_) => format!("undecodable:{}", s),
    }
}

/// C04: the credential context m2 = H(prover id, revocation index) through the hook, in batches
fn gen_ctx(thorough: bool, rng: &mut Rng) -> Result<(), String> {
    let mut items: Vec<(String, Option<u32>)> = vec![];
    let nid = if thorough { 20000 } else { 3000 };
    for k in 0..nid {
        // plain ids of several shapes; one digest in 256 ends in a zero byte (the encoding of the
        // intermediate number then has a leading zero to drop)
        let id = match k % 4 {
            0 => format!("did:example:holder-{}", k),
            1 => format!("prover-{}", rng.hex_bits(40)),
            2 => format!("{}", k),
            _ => rng.hex_bits(8 + (k % 200)),
        };
        items.push((id, if k % 3 == 0 { None } else { Some(rng.below(1 << 20) as u32) }));
    }
    for id in ["", " ", "CnEDk9HrMnmiHXEV1WFgbVCRteYnPqsJwrTdcZaNhFVW", "pr\u{f6}ver-\u{1F600}", "a\nb"] {
        items.push((id.to_string(), None));
        items.push((id.to_string(), Some(1)));
    }
    let nidx = if thorough { 70000 } else { 5000 };
    for i in 0..nidx { items.push(("prover".to_string(), Some(i))); }
    for i in [i32::MAX as u32 - 1, i32::MAX as u32, 1u32 << 31, (1u32 << 31) + 1, u32::MAX - 1, u32::MAX, 3_000_000_000] {
        items.push(("prover".to_string(), Some(i)));
    }
    for chunk in items.chunks(1000).enumerate() {
        let (ci, ch) = chunk;
        let mut outs = vec![];
        let mut oracles = vec![];
        for (id, idx) in ch {
            let r = guard(|| Issuer::verif_gen_credential_context(id, *idx));
            match &r {
                Out::Ok(b) => outs.push(json!(b.to_dec().unwrap_or_default())),
                o => {
                    outs.push(json!(o.tag()));
                    oracles.push(json!({"name":"m2_context","ok":false,"detail":format!("credential context for ({:?}, {:?}) is {} {}", id, idx, o.tag(), o.msg())}));
                }
            }
        }
        emit(&json!({"id": format!("ctx/{}", ci), "op": "ctx",
            "in": {"backend": backend_str(), "items": ch.iter().map(|(id, idx)| json!({"prover_id": id, "rev_idx": idx})).collect::<Vec<_>>()},
            "impl": {"m2": outs, "oracles": oracles}, "class": {"kind": "credential-context", "count": ch.len()}}));
    }
    Ok(())
}

/// C05/C06: reference issuer for the KEY proof (the model builds key and proof from chosen exponents over the
/// fixture's n and S; the real holder judges): complete, legacy (no master_secret), and proofs that leave
/// generators uncovered - with a recomputed, self-consistent challenge
fn gen_keyforge(thorough: bool, rng: &mut Rng) -> Result<(), String> {
    let pool = Pool::load()?;
    let rounds = if thorough { 6 } else { 1 };
    let mut k = 0;
    for _ in 0..rounds {
        for (name, cd) in pool.defs.iter() {
            let pkj = jv(&cd.pk)["p_key"].clone();
            let names: Vec<String> = cd.attrs.iter().chain(cd.non_attrs.iter()).cloned().collect();
            let first = cd.attrs[0].clone();
            let second = cd.attrs[cd.attrs.len() - 1].clone();
            // (variant, uncovered names, r_override (name, kind), expected accept)
            let variants: Vec<(&str, Vec<String>, Option<(String, &str)>, bool)> = vec![
                ("complete", vec![], None, true),
                ("legacy_without_master_secret", vec!["master_secret".into()], None, true),
                ("one_attribute_uncovered", vec![first.clone()], None, false),
                ("one_attribute_uncovered_not_a_power_of_s", vec![first.clone()], Some((first.clone(), "n-1")), false),
                ("last_attribute_uncovered", vec![second.clone()], None, false),
                ("master_secret_and_one_attribute_uncovered", vec!["master_secret".into(), first.clone()], Some((first.clone(), "n-4")), false),
                ("two_attributes_uncovered", vec![first.clone(), second.clone()], None, false),
                ("nothing_covered", names.clone(), None, false),
                ("covered_generator_replaced", vec![], Some((first.clone(), "n-1")), false),
                // the key has no generator called master_secret, the proof carries an entry under that name
                ("key_without_master_secret_proof_names_it", vec![], None, false),
                // S = 0 with arbitrary Z = 2 and every R = 3: all recomputed commitments vanish, the "proof" is computable by anybody
                ("s_zero_forgery", vec![], None, false),
                // the proof names the last attribute twice and leaves the first (replaced, not a power of S) out: as many entries as generators
                ("repeated_name_stands_in_for_uncovered", vec![first.clone()], Some((first.clone(), "n-1")), false),
            ];
            for (variant, uncovered, ovr, accept) in variants {
                if uncovered.len() == 2 && uncovered[0] == uncovered[1] { continue; }
                let n_dec = pkj["n"].as_str().unwrap_or("0").to_string();
                let names_v: Vec<String> = if variant == "key_without_master_secret_proof_names_it" {
                    names.iter().map(|a| if a == "master_secret" { "link_secret".to_string() } else { a.clone() }).collect()
                } else { names.clone() };
                let attrs: Vec<Value> = names_v.iter().map(|a| {
                    let mut o = json!({"name": a, "xr": dec_of_hex(&rng.hex_bits(2000)), "xr_tilde": dec_of_hex(&rng.hex_bits(2200)), "covered": !uncovered.contains(a)});
                    if let Some((on, kind)) = &ovr {
                        if on == a { o["r_override"] = json!(dec_add(&n_dec, if *kind == "n-1" { -1 } else { -4 })); }
                    }
                    if variant == "s_zero_forgery" { o["r_override"] = json!("3"); }
                    if variant == "repeated_name_stands_in_for_uncovered" && *a == second && second != first { o["covered_again_xr_tilde"] = json!(dec_of_hex(&rng.hex_bits(2200))); }
                    o
                }).collect();
                let mut inj = json!({"backend": backend_str(), "n": pkj["n"], "s": pkj["s"], "xz": dec_of_hex(&rng.hex_bits(2000)), "xz_tilde": dec_of_hex(&rng.hex_bits(2200)),
                           "xrctxt": dec_of_hex(&rng.hex_bits(2000)), "attrs": attrs,
                           "extra_proof_entries": if variant == "key_without_master_secret_proof_names_it" { json!([["master_secret", dec_of_hex(&rng.hex_bits(2300))]]) } else { json!([]) }});
                if variant == "s_zero_forgery" { inj["s"] = json!("0"); inj["z_override"] = json!("2"); }
                emit(&json!({"id": format!("keyforge/{}/{}", k, variant), "op": "key_prove",
                    "in": inj,
                    "impl": {"exec": {"op": "key_proof_verdict", "in": {"def": name}}, "expect_accept": accept, "variant": variant},
                    "class": {"kind": "reference-key-issuer", "variant": variant, "def": name}}));
            }
            k += 1;
        }
    }
    Ok(())
}

pub fn gen(stream: &str, thorough: bool, rng: &mut Rng) -> Option<Result<(), String>> {
    match stream {
        "keyforge" => Some(gen_keyforge(thorough, rng)),
        "ctx" => Some(gen_ctx(thorough, rng)),
        "issue" => Some(gen_issue(thorough, rng)),
        "keygen" => Some(gen_keygen(thorough, rng)),
        _ => None,
    }
}

/// exec ops for artefacts produced by the model
pub fn exec(op: &str, inp: &Value) -> Option<Result<Value, String>> {
    match op {
        // {def, values, factors, nonce, signature (p_credential json), proof} -> ok|err|panic
        "process_sig" => Some((|| {
            let cd = load_fixture(inp["def"].as_str().unwrap_or(""))?;
            let sig: CredentialSignature = from_jv(&json!({"p_credential": inp["signature"], "r_credential": Value::Null}))?;
            let sp: SignatureCorrectnessProof = from_jv(&inp["proof"])?;
            let vals: CredentialValues = from_jv(&inp["values"])?;
            let fac: CredentialSecretsBlindingFactors = from_jv(&inp["factors"])?;
            let nonce = bn::BigNumber::from_dec(inp["nonce"].as_str().unwrap_or("")).map_err(|e| e.to_string())?;
            let r = guard(|| {
                let mut s = sig.try_clone()?;
                Prover::process_credential_signature(&mut s, &vals, &sp, &fac, &cd.pk, &nonce, None, None, None)
            });
            Ok(status_json(&r))
        })()),
        // {def, pk (p_key json), proof} -> the real holder's verdict on key + key-correctness proof
        "key_proof_verdict" => Some((|| {
            let cd = load_fixture(inp["def"].as_str().unwrap_or(""))?;
            let mut full = jv(&cd.pk);
            full["p_key"] = inp["pk"].clone();
            let mut hb = Issuer::new_credential_values_builder().map_err(|e| e.to_string())?;
            hb.add_dec_hidden("master_secret", "12345678901234567890").map_err(|e| e.to_string())?;
            let hidden = hb.finalize().map_err(|e| e.to_string())?;
            let nonce = new_nonce().map_err(|e| e.to_string())?;
            let r: Out<()> = match (from_jv::<CredentialPublicKey>(&full), from_jv::<CredentialKeyCorrectnessProof>(&inp["proof"])) {
                (Ok(pk), Ok(kp)) => guard(|| Prover::blind_credential_secrets(&pk, &kp, &hidden, &nonce).map(|_| ())),
                (a, b) => Out::Err(format!("decode: {:?} {:?}", a.err(), b.err())),
            };
            Ok(status_json(&r))
        })()),
        // {def, known, nonce, blinded, proof} -> ok|err|panic
        "sign_for" => Some((|| {
            let cd = load_fixture(inp["def"].as_str().unwrap_or(""))?;
            let b: BlindedCredentialSecrets = from_jv(&inp["blinded"])?;
            let p: BlindedCredentialSecretsCorrectnessProof = from_jv(&inp["proof"])?;
            let known: CredentialValues = from_jv(&inp["known"])?;
            let nonce = bn::BigNumber::from_dec(inp["nonce"].as_str().unwrap_or("")).map_err(|e| e.to_string())?;
            let inonce = new_nonce().map_err(|e| e.to_string())?;
            let r = guard(|| Issuer::sign_credential("model-holder", &b, &p, &nonce, &inonce, &known, &cd.pk, &cd.sk).map(|_| ()));
            Ok(status_json(&r))
        })()),
        _ => None,
    }
}
