//! C19: group-order scalars, point / pairing wrappers, four_squares
//!
//! stream `c19`:
//!  (a) `sc_op`      every GroupOrderElement operation on edge and random operands, result as the
//!                   32-byte hex of the raw value (compared with the Lean model `CL.Sc`)
//!  (b) `pair_case`  point and pairing laws checked here on the real wrappers (named oracles);
//!                   the scalars a+b, a*b, a-b, -a, r-1 used in the laws are emitted and compared
//!                   with the model's scalar arithmetic
//!  (c) `four_squares` the real function against the model (exact roots) + direct sum-of-squares
//!                   oracle; ranges, stratified samples, all f64 breakpoints k^2 / k^2-1
use crate::rng::Rng;
use crate::util::*;
use anoncreds_clsignatures::bn::BigNumber;
use anoncreds_clsignatures::verif as vf;
use serde_json::{json, Value};
use std::sync::mpsc;
use std::time::Duration;

type Sc = vf::GroupOrderElement;

const R_HEX: &str = "2523648240000001ba344d8000000007ff9f800000000010a10000000000000d";

pub fn gen(stream: &str, thorough: bool, rng: &mut Rng) -> Option<Result<(), String>> {
    if stream != "c19" {
        return None;
    }
    Some(run(thorough, rng))
}

struct Em {
    n: usize,
}

impl Em {
    fn case(&mut self, op: &str, inp: Value, imp: Value, class: Value) {
        self.n += 1;
        emit(&json!({"id": format!("c19/{}", self.n), "op": op, "in": inp, "impl": imp, "class": class}));
    }
}

fn run(thorough: bool, rng: &mut Rng) -> Result<(), String> {
    let mut em = Em { n: 0 };
    let t = std::time::Instant::now();
    scalars(&mut em, thorough, &mut rng.fork())?;
    eprintln!("c19 scalars: {} cases, {:.1}s", em.n, t.elapsed().as_secs_f64());
    pairings(&mut em, thorough, &mut rng.fork())?;
    eprintln!("c19 +pairings: {} cases, {:.1}s", em.n, t.elapsed().as_secs_f64());
    four_squares(&mut em, thorough, &mut rng.fork())?;
    eprintln!("c19 +four_squares: {} cases, {:.1}s", em.n, t.elapsed().as_secs_f64());
    Ok(())
}

// ------------------------------------------------------------------ watchdog

/// safety net: run `f` on its own thread; `None` if it has not returned after `ms` (the thread is
/// then abandoned). `inverse(0)` and `from_string` on 72-digit strings used not to terminate on the
/// pinned tree; a regression must show up as a failed oracle, not as a stuck harness.
fn with_timeout<T: Send + 'static>(ms: u64, f: impl FnOnce() -> T + Send + 'static) -> Option<T> {
    let (tx, rx) = mpsc::channel();
    std::thread::spawn(move || {
        let _ = tx.send(f());
    });
    rx.recv_timeout(Duration::from_millis(ms)).ok()
}

// ------------------------------------------------------------------ (a) scalars

fn sc_hex(x: &Sc) -> String {
    hex(&x.to_bytes().unwrap_or_default())
}

fn sc_from_hex(h: &str) -> Result<Sc, String> {
    let b = unhex(h).ok_or("bad hex")?;
    Sc::from_bytes(&b).map_err(|e| e.to_string())
}

fn sc_result(o: &Out<Sc>) -> Value {
    match o {
        Out::Ok(v) => json!({"status": "ok", "val": sc_hex(v)}),
        _ => json!({"status": o.tag(), "msg": o.msg().chars().take(80).collect::<String>()}),
    }
}

fn hex_of_u(v: u128) -> String {
    format!("{:064x}", v)
}

/// r + k as 32-byte hex, k may be negative
fn r_plus(k: i64) -> String {
    // r ends in ...0d; small offsets only touch the low 64 bits without carry/borrow beyond them
    let low = 0xa100_0000_0000_000du64 as i128 + k as i128;
    assert!(low >= 0 && low < (1i128 << 64));
    format!("{}{:016x}", &R_HEX[..48], low as u64)
}

fn edge_scalars(rng: &mut Rng) -> Result<Vec<(String, Sc)>, String> {
    let mut v: Vec<(String, Sc)> = vec![];
    let mut add = |label: &str, h: String| -> Result<(), String> {
        v.push((label.to_string(), sc_from_hex(&h)?));
        Ok(())
    };
    add("0", hex_of_u(0))?;
    add("1", hex_of_u(1))?;
    add("2", hex_of_u(2))?;
    add("3", hex_of_u(3))?;
    add("2^32-1", hex_of_u(0xffff_ffff))?;
    add("2^64", hex_of_u(1u128 << 64))?;
    add("2^127", hex_of_u(1u128 << 127))?;
    add("r-1", r_plus(-1))?;
    add("r-2", r_plus(-2))?;
    add("r-3", r_plus(-3))?;
    // (r-1)/2 and (r+1)/2
    let half = Sc::from_bytes(&unhex(&hex_of_u(2)).unwrap()).and_then(|t| t.inverse()).map_err(|e| e.to_string())?;
    v.push(("(r+1)/2".into(), half));
    v.push(("(r-1)/2".into(), half.sub_mod(&Sc::new_u32(1).map_err(|e| e.to_string())?).map_err(|e| e.to_string())?));
    v.push(("2^253".into(), sc_from_hex(&format!("20{}", "00".repeat(31)))?));
    // mod_neg(0): returned the unreduced r before the fix in /repo; now plain zero
    let zero = Sc::from_bytes(&[]).map_err(|e| e.to_string())?;
    v.push(("neg(0)".into(), zero.mod_neg().map_err(|e| e.to_string())?));
    for i in 0..3 {
        v.push((format!("rand{}", i), sc_from_hex(&hex(&rng.bytes(32)))?));
    }
    Ok(v)
}

fn rand_scalar(rng: &mut Rng) -> Sc {
    // random byte strings of random length <= 32, reduced by from_bytes
    let n = if rng.chance(3, 4) { 32 } else { rng.below(33) as usize };
    Sc::from_bytes(&rng.bytes(n)).unwrap()
}

fn binop(name: &str, a: &Sc, b: &Sc) -> Out<Sc> {
    let (a, b) = (*a, *b);
    match name {
        "add" => guard(|| a.add_mod(&b)),
        "sub" => guard(|| a.sub_mod(&b)),
        "mul" => guard(|| a.mul_mod(&b)),
        "pow" => guard(|| a.pow_mod(&b)),
        _ => unreachable!(),
    }
}

/// inverse under the safety net: `None` = did not return within 10 s
fn inverse_wd(a: &Sc) -> Option<Out<Sc>> {
    let a = *a;
    with_timeout(10_000, move || guard(|| a.inverse()))
}

fn scalars(em: &mut Em, thorough: bool, rng: &mut Rng) -> Result<(), String> {
    let edges = edge_scalars(rng)?;
    let one = Sc::new_u32(1).map_err(|e| e.to_string())?;
    let emit_bin = |em: &mut Em, name: &str, la: &str, a: &Sc, lb: &str, b: &Sc| {
        let o = binop(name, a, b);
        let mut oracles = vec![];
        // direct oracles (independent of the model): round trips through the inverse operation
        if let Out::Ok(v) = &o {
            match name {
                "add" => {
                    if let Ok(back) = v.sub_mod(b) {
                        if sc_hex(&back) != sc_hex(&a.add_mod(&Sc::from_bytes(&[]).unwrap()).unwrap()) {
                            oracles.push(json!({"name": "scalar_add_sub_roundtrip", "detail": format!("(a+b)-b != a mod r for a={} b={}", sc_hex(a), sc_hex(b))}));
                        }
                    }
                }
                "sub" => {
                    if let Ok(back) = v.add_mod(b) {
                        if sc_hex(&back) != sc_hex(&a.add_mod(&Sc::from_bytes(&[]).unwrap()).unwrap()) {
                            oracles.push(json!({"name": "scalar_sub_add_roundtrip", "detail": format!("(a-b)+b != a mod r for a={} b={}", sc_hex(a), sc_hex(b))}));
                        }
                    }
                }
                _ => {}
            }
        }
        let mut imp = sc_result(&o);
        imp["oracles"] = json!(oracles);
        em.case("sc_op", json!({"op": name, "args": [sc_hex(a), sc_hex(b)]}), imp, json!({"part": "scalar", "sop": name, "operands": format!("{},{}", la, lb)}));
    };
    for name in ["add", "sub", "mul", "pow"] {
        for (la, a) in &edges {
            for (lb, b) in &edges {
                emit_bin(em, name, la, a, lb, b);
            }
        }
        let n = if thorough { 3000 } else { 300 };
        for _ in 0..n {
            let (a, b) = (rand_scalar(rng), rand_scalar(rng));
            emit_bin(em, name, "rand", &a, "rand", &b);
            if rng.chance(1, 4) {
                let (la, e) = rng.pick(&edges).clone();
                emit_bin(em, name, "rand", &a, &la, &e);
                emit_bin(em, name, &la, &e, "rand", &b);
            }
        }
    }
    // unary
    let mut unary_inputs: Vec<(String, Sc)> = edges.clone();
    for _ in 0..(if thorough { 2000 } else { 200 }) {
        unary_inputs.push(("rand".into(), rand_scalar(rng)));
    }
    for (la, a) in &unary_inputs {
        let a = *a;
        let zero_class = a.is_zero() || sc_hex(&a) == R_HEX;
        let o = guard(|| a.mod_neg());
        let mut oracles = vec![];
        if let Out::Ok(v) = &o {
            // a + (-a) = 0 and the result is canonical (0 <= -a < r: equal to its own reduction)
            if !v.add_mod(&a).map(|s| s.is_zero()).unwrap_or(false) {
                oracles.push(json!({"name": "scalar_neg_cancels", "detail": format!("a + mod_neg(a) != 0 for a={}", sc_hex(&a))}));
            }
            let red = Sc::from_bytes(&v.to_bytes().unwrap_or_default()).map(|s| sc_hex(&s)).unwrap_or_default();
            if red != sc_hex(v) {
                oracles.push(json!({"name": "scalar_result_reduced", "detail": format!("mod_neg({}) returns the unreduced value {} (operand class {})", sc_hex(&a), sc_hex(v), if zero_class { "zero" } else { "nonzero" })}));
            }
            // regression (fixed: mod_neg(0) returned r): the negation of zero is zero
            if zero_class && !(v.is_zero() && *v == Sc::from_bytes(&[]).unwrap()) {
                oracles.push(json!({"name": "neg_zero_is_zero", "detail": format!("mod_neg({}) = {} (is_zero() = {}), expected 0", sc_hex(&a), sc_hex(v), v.is_zero())}));
            }
        } else if zero_class {
            oracles.push(json!({"name": "neg_zero_is_zero", "detail": format!("mod_neg({}) {} instead of 0", sc_hex(&a), o.tag())}));
        }
        let mut imp = sc_result(&o);
        imp["oracles"] = json!(oracles);
        em.case("sc_op", json!({"op": "neg", "args": [sc_hex(&a)]}), imp, json!({"part": "scalar", "sop": "neg", "operands": la}));

        // inverse (safety net only)
        let mut oracles = vec![];
        let imp = match inverse_wd(&a) {
            None => {
                oracles.push(json!({"name": if zero_class { "inverse_zero_is_err" } else { "scalar_inverse_terminates" }, "detail": format!("inverse({}) did not return within 10 s (operand class {})", sc_hex(&a), if zero_class { "zero" } else { "nonzero" })}));
                json!({"status": "hang"})
            }
            Some(o) => {
                match &o {
                    Out::Ok(v) => {
                        if zero_class {
                            // regression (fixed: inverse(0) did not terminate): zero has no inverse
                            oracles.push(json!({"name": "inverse_zero_is_err", "detail": format!("inverse({}) returned Ok({}) for the zero class", sc_hex(&a), sc_hex(v))}));
                        } else if v.mul_mod(&a).map(|p| sc_hex(&p) != sc_hex(&one)).unwrap_or(true) {
                            oracles.push(json!({"name": "scalar_inverse_is_inverse", "detail": format!("a * inverse(a) != 1 for a={}", sc_hex(&a))}));
                        }
                    }
                    Out::Err(_) => {
                        if !zero_class {
                            oracles.push(json!({"name": "scalar_inverse_total", "detail": format!("inverse({}) returned Err for a non-zero scalar", sc_hex(&a))}));
                        }
                    }
                    Out::Panic(_) => {
                        oracles.push(json!({"name": if zero_class { "inverse_zero_is_err" } else { "scalar_inverse_total" }, "detail": format!("inverse({}) panics (operand class {})", sc_hex(&a), if zero_class { "zero" } else { "nonzero" })}));
                    }
                }
                sc_result(&o)
            }
        };
        let mut imp = imp;
        imp["oracles"] = json!(oracles);
        em.case("sc_op", json!({"op": "inv", "args": [sc_hex(&a)]}), imp, json!({"part": "scalar", "sop": "inv", "operands": la}));

        // to_string / to_bytes and back
        let s = guard(|| a.to_string());
        let mut oracles = vec![];
        if let Out::Ok(st) = &s {
            let st2 = st.clone();
            match guard(move || Sc::from_string(&st2)) {
                Out::Ok(back) => {
                    if sc_hex(&back) != sc_hex(&a.add_mod(&Sc::from_bytes(&[]).unwrap()).unwrap()) {
                        oracles.push(json!({"name": "scalar_string_roundtrip", "detail": format!("from_string(to_string(a)) != a mod r for a={}", sc_hex(&a))}));
                    }
                }
                other => oracles.push(json!({"name": "scalar_string_roundtrip", "detail": format!("from_string(to_string(a)) {} for a={}", other.tag(), sc_hex(&a))})),
            }
        }
        let imp = match &s {
            Out::Ok(st) => json!({"status": "ok", "str": st, "oracles": oracles}),
            o => json!({"status": o.tag(), "oracles": oracles}),
        };
        em.case("sc_op", json!({"op": "to_string", "args": [sc_hex(&a)]}), imp, json!({"part": "scalar", "sop": "to_string", "operands": la}));
    }

    // from_bytes: every length 0..=40 with several fillings, and values >= r on 32 bytes
    let mut byte_inputs: Vec<(String, Vec<u8>)> = vec![];
    for len in 0..=40usize {
        byte_inputs.push((format!("zeros{}", len_class(len)), vec![0u8; len]));
        byte_inputs.push((format!("ff{}", len_class(len)), vec![0xffu8; len]));
        byte_inputs.push((format!("rand{}", len_class(len)), rng.bytes(len)));
        if len > 0 {
            let mut b = vec![0u8; len];
            b[len - 1] = 1;
            byte_inputs.push((format!("one{}", len_class(len)), b));
        }
    }
    for k in [-2i64, -1, 0, 1, 2] {
        byte_inputs.push((format!("r{:+}", k), unhex(&r_plus(k)).unwrap()));
    }
    // multiples of r that still fit 32 bytes (6r < 2^256 < 7r), and their neighbours
    let rb = unhex(R_HEX).unwrap();
    for m in [2u32, 3, 6] {
        for off in [0u32, 1, 5] {
            byte_inputs.push((format!("{}r+{}", m, off), be_mul_add_small(&rb, m, off)));
        }
    }
    for _ in 0..(if thorough { 3000 } else { 300 }) {
        let len = if rng.chance(2, 3) { 32 } else { rng.below(41) as usize };
        let mut b = rng.bytes(len);
        if len == 32 && rng.chance(1, 2) {
            b[0] |= 0x40; // >= r before reduction
        }
        byte_inputs.push((format!("rand{}", len_class(len)), b));
    }
    for (label, b) in &byte_inputs {
        let o = guard(|| Sc::from_bytes(b));
        em.case("sc_op", json!({"op": "from_bytes", "args": [hex(b)]}), sc_result(&o), json!({"part": "scalar", "sop": "from_bytes", "operands": label}));
    }

    // from_string: 1..=71 hex digits are read and reduced, everything else must be refused with Err
    // (fixed: empty / non-hex input panicked, 72+ digits gave wrong or unreduced values or did not
    // terminate); safety net only
    let mut str_inputs: Vec<(String, String, bool)> = vec![]; // (class, input, must be accepted)
    for s in ["", "g", "0x10", " 1", "1 ", "+5", "-5", "\u{e9}", "1\u{e9}", "12_3", "1g", "\u{ff11}", "1\n", "0X1", "\u{0}"] {
        str_inputs.push(("malformed".into(), s.to_string(), false));
    }
    for s in ["0", "1", "f", "F", "aB", "00", "0000000001"] {
        str_inputs.push(("short".into(), s.to_string(), true));
    }
    str_inputs.push(("r".into(), R_HEX.to_uppercase(), true));
    str_inputs.push(("r-1".into(), r_plus(-1), true));
    str_inputs.push(("r+1".into(), r_plus(1), true));
    str_inputs.push(("64f".into(), "f".repeat(64), true));
    for len in 1..=71usize {
        str_inputs.push((format!("hex{}", if len <= 64 { "<=64" } else { "65..71" }), rand_hex(rng, len), true));
    }
    str_inputs.push(("71F".into(), "F".repeat(71), true));
    str_inputs.push(("71_zeros_1".into(), format!("{}1", "0".repeat(70)), true));
    // more than 71 digits (the classes that were exact / truncated / unreduced / non-terminating)
    str_inputs.push(("72+digits".into(), format!("{:08x}{}", 0x1000_0000u32, rand_hex(rng, 64)), false));
    str_inputs.push(("72+digits".into(), format!("4a46c903{}", "f".repeat(64)), false));
    str_inputs.push(("72+digits".into(), format!("1{}", "0".repeat(72)), false));
    str_inputs.push(("72+digits".into(), format!("abcdef{}{}", "0".repeat(8), rand_hex(rng, 64)), false));
    str_inputs.push(("72+digits".into(), "F".repeat(72), false));
    str_inputs.push(("72+digits".into(), format!("7{}", "F".repeat(71)), false));
    str_inputs.push(("72+digits".into(), format!("4a46c905{}", "0".repeat(64)), false));
    str_inputs.push(("72+digits".into(), "0".repeat(72), false));
    str_inputs.push(("72+digits".into(), rand_hex(rng, 200), false));
    // a malformed character behind / in front of many valid digits
    str_inputs.push(("malformed".into(), format!("{}g", rand_hex(rng, 63)), false));
    str_inputs.push(("malformed".into(), format!("g{}", rand_hex(rng, 63)), false));
    for (label, s, accept) in &str_inputs {
        let s2 = s.clone();
        let mut oracles = vec![];
        let imp = match with_timeout(10_000, move || guard(|| Sc::from_string(&s2))) {
            None => {
                oracles.push(json!({"name": "from_string_rejects_malformed", "detail": format!("from_string({:?}) did not return within 10 s (class {})", s, label)}));
                json!({"status": "hang"})
            }
            Some(o) => {
                if !*accept && !matches!(o, Out::Err(_)) {
                    oracles.push(json!({"name": "from_string_rejects_malformed", "detail": format!("from_string({:?}) {} instead of Err (class {})", s, o.tag(), label)}));
                }
                if *accept && !o.is_ok() {
                    oracles.push(json!({"name": "from_string_accepts_hex", "detail": format!("from_string({:?}) {} for 1..=71 hex digits (class {})", s, o.tag(), label)}));
                }
                sc_result(&o)
            }
        };
        let mut imp = imp;
        imp["oracles"] = json!(oracles);
        em.case("sc_op", json!({"op": "from_string", "args": [s]}), imp, json!({"part": "scalar", "sop": "from_string", "operands": label}));
    }

    // new_u32
    for v in [0u32, 1, 2, 0x7fff_ffff, 0x8000_0000, 0xffff_ffff, rng.next() as u32, rng.next() as u32] {
        let o = guard(|| Sc::new_u32(v));
        em.case("sc_op", json!({"op": "new_u32", "args": [v]}), sc_result(&o), json!({"part": "scalar", "sop": "new_u32"}));
    }

    // bignum_to_group_element_reduce
    let zero_byte = BigNumber::from_dec("0").and_then(|z| z.to_bytes()).map(|b| b == vec![0u8]).unwrap_or(false);
    let r_dec = BigNumber::from_hex(R_HEX).and_then(|b| b.to_dec()).map_err(|e| e.to_string())?;
    let mut decs: Vec<(String, String)> = vec![
        ("0".into(), "0".into()),
        ("1".into(), "1".into()),
        ("-1".into(), "-1".into()),
        ("r".into(), r_dec.clone()),
        ("-r".into(), format!("-{}", r_dec)),
    ];
    for (label, hx) in [("r-1", r_plus(-1)), ("r+1", r_plus(1))] {
        decs.push((label.into(), BigNumber::from_hex(&hx).and_then(|b| b.to_dec()).map_err(|e| e.to_string())?));
    }
    for _ in 0..(if thorough { 1000 } else { 120 }) {
        let bits = *rng.pick(&[8usize, 64, 200, 253, 254, 255, 256, 257, 300, 512, 1024, 2048, 3000]);
        let h = rng.hex_bits(bits);
        let d = BigNumber::from_hex(&h).and_then(|b| b.to_dec()).map_err(|e| e.to_string())?;
        let neg = rng.chance(1, 3) && d != "0";
        decs.push((format!("{}{}bit", if neg { "-" } else { "" }, bits), if neg { format!("-{}", d) } else { d }));
    }
    for (label, d) in &decs {
        let o = guard(|| vf::bignum_to_group_element_reduce(&BigNumber::from_dec(d)?));
        em.case("sc_op", json!({"op": "bignum_reduce", "args": [d, zero_byte]}), sc_result(&o), json!({"part": "scalar", "sop": "bignum_reduce", "operands": label}));
    }
    Ok(())
}

/// m*b + off on a 32-byte big-endian number (result must fit 32 bytes)
fn be_mul_add_small(b: &[u8], m: u32, off: u32) -> Vec<u8> {
    let mut out = vec![0u8; b.len()];
    let mut carry = off as u64;
    for i in (0..b.len()).rev() {
        let t = b[i] as u64 * m as u64 + carry;
        out[i] = (t & 0xff) as u8;
        carry = t >> 8;
    }
    assert_eq!(carry, 0);
    out
}

fn len_class(len: usize) -> String {
    match len {
        0 => "/len0".into(),
        1..=31 => "/len1..31".into(),
        32 => "/len32".into(),
        _ => "/len33+".into(),
    }
}

fn rand_hex(rng: &mut Rng, len: usize) -> String {
    let digits = b"0123456789abcdefABCDEF";
    (0..len).map(|_| digits[rng.below(22) as usize] as char).collect()
}

// ------------------------------------------------------------------ (b) points and pairing

fn g1_canon(p: &vf::PointG1) -> String {
    if p.is_inf().unwrap_or(false) {
        "inf".into()
    } else {
        hex(&p.to_bytes().unwrap_or_default())
    }
}

fn g2_canon(p: &vf::PointG2) -> String {
    if p.is_inf().unwrap_or(false) {
        "inf".into()
    } else {
        hex(&p.to_bytes().unwrap_or_default())
    }
}

fn gt_canon(p: &vf::Pair) -> String {
    hex(&p.to_bytes().unwrap_or_default())
}

fn pr(p: &vf::PointG1, q: &vf::PointG2) -> Result<vf::Pair, ClE> {
    vf::Pair::pair(p, q)
}

fn pr2(p: &vf::PointG1, q: &vf::PointG2, r: &vf::PointG1, s: &vf::PointG2) -> Result<vf::Pair, ClE> {
    vf::Pair::pair2(p, q, r, s)
}

struct Laws {
    failed: Vec<Value>,
    checked: usize,
    ctx: String,
}

impl Laws {
    fn check(&mut self, name: &str, ok: bool, what: &str) {
        self.checked += 1;
        if !ok {
            self.failed.push(json!({"name": name, "detail": format!("{}: {} [{}]", name, what, self.ctx)}));
        }
    }
    /// equality both through the derived `==` (amcl `equals`) and through the byte encoding
    fn eq_g1(&mut self, name: &str, x: &vf::PointG1, y: &vf::PointG1, what: &str) {
        let (b, e) = (g1_canon(x) == g1_canon(y), x == y);
        self.check(name, b, what);
        self.check("eq_agrees_with_bytes_g1", b == e, &format!("PointG1 == is {} but encodings equal is {} in {}", e, b, what));
    }
    fn eq_g2(&mut self, name: &str, x: &vf::PointG2, y: &vf::PointG2, what: &str) {
        let (b, e) = (g2_canon(x) == g2_canon(y), x == y);
        self.check(name, b, what);
        self.check("eq_agrees_with_bytes_g2", b == e, &format!("PointG2 == is {} but encodings equal is {} in {}", e, b, what));
    }
    /// the law is decided by `==` (amcl `equals`, on reduced values); equal values must also have
    /// equal `to_bytes` encodings (the encodings are what the protocol hashes)
    fn eq_gt(&mut self, name: &str, x: &vf::Pair, y: &vf::Pair, what: &str) {
        let (b, e) = (gt_canon(x) == gt_canon(y), x == y);
        self.check(name, e, what);
        if e {
            let unity = x.is_unity().unwrap_or(false);
            self.check("gt_encoding_canonical", b, &format!("equal Pair values have different to_bytes encodings in {} (value is unity: {})", what, unity));
        }
    }
}

type ClE = anoncreds_clsignatures::Error;

fn pair_case(a: &Sc, b: &Sc, x: &Sc, y: &Sc, inf_variant: u8, laws: &mut Laws) -> Result<Value, ClE> {
    let zero = Sc::from_bytes(&[])?;
    let one = Sc::new_u32(1)?;
    let rm1 = zero.sub_mod(&one)?;
    let ab = a.mul_mod(b)?;
    let apb = a.add_mod(b)?;
    let amb = a.sub_mod(b)?;
    let nega = a.mod_neg()?;

    let g1 = vf::PointG1::new_generator()?;
    let g2 = vf::PointG2::new_generator()?;
    let inf1 = vf::PointG1::new_inf()?;
    let inf2 = vf::PointG2::new_inf()?;
    // P, Q random multiples of the generators (or the identity in the edge variants)
    let p = if inf_variant == 1 { inf1 } else { g1.mul(x)? };
    let q = if inf_variant == 2 { inf2 } else { g2.mul(y)? };

    // ---- G1
    let pa = p.mul(a)?;
    let pb = p.mul(b)?;
    laws.eq_g1("g1_mul_add", &pa.add(&pb)?, &p.mul(&apb)?, "P.mul(a).add(P.mul(b)) vs P.mul(a+b)");
    laws.eq_g1("g1_mul_sub", &pa.sub(&pb)?, &p.mul(&amb)?, "P.mul(a).sub(P.mul(b)) vs P.mul(a-b)");
    laws.eq_g1("g1_mul_mul", &pa.mul(b)?, &p.mul(&ab)?, "P.mul(a).mul(b) vs P.mul(a*b)");
    laws.eq_g1("g1_mul_neg", &pa.neg()?, &p.mul(&nega)?, "P.mul(a).neg() vs P.mul(-a)");
    laws.check("g1_sub_self_inf", pa.sub(&pa)?.is_inf()?, "P.sub(P) is not the identity");
    laws.check("g1_mul_zero_inf", p.mul(&zero)?.is_inf()?, "P.mul(0) is not the identity");
    laws.eq_g1("g1_mul_one", &p.mul(&one)?, &p, "P.mul(1) vs P");
    laws.eq_g1("g1_mul_rm1_neg", &p.mul(&rm1)?, &p.neg()?, "P.mul(r-1) vs P.neg()");
    laws.eq_g1("g1_add_inf", &pa.add(&inf1)?, &pa, "P.add(inf) vs P");
    laws.eq_g1("g1_inf_add", &inf1.add(&pa)?, &pa, "inf.add(P) vs P");
    laws.eq_g1("g1_add_comm", &pa.add(&pb)?, &pb.add(&pa)?, "P.add(Q) vs Q.add(P)");
    laws.eq_g1("g1_add_sub", &pa.add(&pb)?.sub(&pb)?, &pa, "P.add(Q).sub(Q) vs P");
    laws.eq_g1("g1_neg_neg", &pa.neg()?.neg()?, &pa, "P.neg().neg() vs P");
    laws.eq_g1("g1_add_self_double", &pa.add(&pa)?, &pa.mul(&Sc::new_u32(2)?)?, "P.add(P) vs P.mul(2)");
    laws.check("g1_add_neg_inf", pa.add(&pa.neg()?)?.is_inf()?, "P.add(P.neg()) is not the identity");
    laws.check("g1_inf_mul_inf", inf1.mul(a)?.is_inf()?, "inf.mul(a) is not the identity");
    laws.check("g1_inf_neg_inf", inf1.neg()?.is_inf()?, "inf.neg() is not the identity");
    // the decoders of the types that must not hold the identity refuse it (text and bytes alike)
    if pa.is_inf()? {
        laws.check("g1_bytes_roundtrip", vf::PointG1::from_bytes(&pa.to_bytes()?).is_err(), "from_bytes(to_bytes(identity)) is not refused");
    } else {
        laws.eq_g1("g1_bytes_roundtrip", &vf::PointG1::from_bytes(&pa.to_bytes()?)?, &pa, "from_bytes(to_bytes(P)) vs P");
    }
    if !pa.is_inf()? {
        laws.eq_g1("g1_string_roundtrip", &vf::PointG1::from_string(&pa.to_string()?)?, &pa, "from_string(to_string(P)) vs P");
    }

    // ---- G2
    let qa = q.mul(a)?;
    let qb = q.mul(b)?;
    laws.eq_g2("g2_mul_add", &qa.add(&qb)?, &q.mul(&apb)?, "Q.mul(a).add(Q.mul(b)) vs Q.mul(a+b)");
    laws.eq_g2("g2_mul_sub", &qa.sub(&qb)?, &q.mul(&amb)?, "Q.mul(a).sub(Q.mul(b)) vs Q.mul(a-b)");
    laws.eq_g2("g2_mul_mul", &qa.mul(b)?, &q.mul(&ab)?, "Q.mul(a).mul(b) vs Q.mul(a*b)");
    laws.eq_g2("g2_mul_neg", &qa.neg()?, &q.mul(&nega)?, "Q.mul(a).neg() vs Q.mul(-a)");
    laws.check("g2_sub_self_inf", qa.sub(&qa)?.is_inf()?, "Q.sub(Q) is not the identity");
    laws.check("g2_mul_zero_inf", q.mul(&zero)?.is_inf()?, "Q.mul(0) is not the identity");
    laws.eq_g2("g2_mul_one", &q.mul(&one)?, &q, "Q.mul(1) vs Q");
    laws.eq_g2("g2_mul_rm1_neg", &q.mul(&rm1)?, &q.neg()?, "Q.mul(r-1) vs Q.neg()");
    laws.eq_g2("g2_add_inf", &qa.add(&inf2)?, &qa, "Q.add(inf) vs Q");
    laws.eq_g2("g2_inf_add", &inf2.add(&qa)?, &qa, "inf.add(Q) vs Q");
    laws.eq_g2("g2_add_comm", &qa.add(&qb)?, &qb.add(&qa)?, "Q.add(S) vs S.add(Q)");
    laws.eq_g2("g2_add_sub", &qa.add(&qb)?.sub(&qb)?, &qa, "Q.add(S).sub(S) vs Q");
    laws.eq_g2("g2_neg_neg", &qa.neg()?.neg()?, &qa, "Q.neg().neg() vs Q");
    laws.eq_g2("g2_add_self_double", &qa.add(&qa)?, &qa.mul(&Sc::new_u32(2)?)?, "Q.add(Q) vs Q.mul(2)");
    laws.check("g2_add_neg_inf", qa.add(&qa.neg()?)?.is_inf()?, "Q.add(Q.neg()) is not the identity");
    laws.check("g2_inf_mul_inf", inf2.mul(a)?.is_inf()?, "inf.mul(a) is not the identity");
    if qa.is_inf()? {
        laws.check("g2_bytes_roundtrip", vf::PointG2::from_bytes(&qa.to_bytes()?).is_err(), "from_bytes(to_bytes(identity)) is not refused");
        laws.eq_g2("g2_bytes_roundtrip", &vf::PointG2::from_bytes_inf(&qa.to_bytes()?)?, &qa, "from_bytes_inf(to_bytes(identity)) vs identity");
    } else {
        laws.eq_g2("g2_bytes_roundtrip", &vf::PointG2::from_bytes(&qa.to_bytes()?)?, &qa, "from_bytes(to_bytes(Q)) vs Q");
    }
    if !qa.is_inf()? {
        laws.eq_g2("g2_string_roundtrip", &vf::PointG2::from_string(&qa.to_string()?)?, &qa, "from_string(to_string(Q)) vs Q");
    }

    // ---- pairing
    let e = pr(&p, &q)?;
    let unity = vf::Pair::new_unity()?;
    laws.eq_gt("pair_bilinear", &pr(&pa, &qb)?, &e.pow(&ab)?, "pair(aP,bQ) vs pair(P,Q).pow(a*b)");
    laws.eq_gt("pair_linear_left", &pr(&pa, &q)?, &e.pow(a)?, "pair(aP,Q) vs pair(P,Q).pow(a)");
    laws.eq_gt("pair_linear_right", &pr(&p, &qb)?, &e.pow(b)?, "pair(P,bQ) vs pair(P,Q).pow(b)");
    laws.eq_gt("pair_swap_scalars", &pr(&pa, &qb)?, &pr(&pb, &qa)?, "pair(aP,bQ) vs pair(bP,aQ)");
    laws.eq_gt("pair_additive_left", &pr(&pa.add(&pb)?, &q)?, &pr(&pa, &q)?.mul(&pr(&pb, &q)?)?, "pair(aP+bP,Q) vs pair(aP,Q).mul(pair(bP,Q))");
    laws.eq_gt("pair_additive_right", &pr(&p, &qa.add(&qb)?)?, &pr(&p, &qa)?.mul(&pr(&p, &qb)?)?, "pair(P,aQ+bQ) vs pair(P,aQ).mul(pair(P,bQ))");
    // pair2 with an independent second pair (R,S) = (bP', aQ') built from the generators
    let r_pt = g1.mul(b)?;
    let s_pt = g2.mul(a)?;
    laws.eq_gt("pair2_is_product", &pr2(&p, &q, &r_pt, &s_pt)?, &e.mul(&pr(&r_pt, &s_pt)?)?, "pair2(P,Q,R,S) vs pair(P,Q).mul(pair(R,S))");
    laws.eq_gt("pair2_cancels", &pr2(&pa, &q, &p.neg()?, &qa)?, &unity, "pair2(aP,Q,-P,aQ) vs unity");
    laws.check("pair2_cancels_is_unity", pr2(&pa, &q, &p.neg()?, &qa)?.is_unity()?, "pair2(aP,Q,-P,aQ).is_unity() is false");
    // inverse
    let einv = e.inverse()?;
    laws.check("pair_inverse_cancels", e.mul(&einv)?.is_unity()?, "e.mul(e.inverse()) is not unity");
    laws.eq_gt("pair_inverse_neg_g1", &einv, &pr(&p.neg()?, &q)?, "pair(P,Q).inverse() vs pair(P.neg(),Q)");
    laws.eq_gt("pair_inverse_neg_g2", &einv, &pr(&p, &q.neg()?)?, "pair(P,Q).inverse() vs pair(P,Q.neg())");
    laws.eq_gt("pair_inverse_pow_rm1", &einv, &e.pow(&rm1)?, "e.inverse() vs e.pow(r-1)");
    laws.eq_gt("pair_inverse_inverse", &einv.inverse()?, &e, "e.inverse().inverse() vs e");
    // pow
    laws.eq_gt("pair_pow_pow", &e.pow(a)?.pow(b)?, &e.pow(&ab)?, "e.pow(a).pow(b) vs e.pow(a*b)");
    laws.eq_gt("pair_pow_mul", &e.pow(a)?.mul(&e.pow(b)?)?, &e.pow(&apb)?, "e.pow(a).mul(e.pow(b)) vs e.pow(a+b)");
    laws.eq_gt("pair_pow_neg", &e.pow(&nega)?, &e.pow(a)?.inverse()?, "e.pow(-a) vs e.pow(a).inverse()");
    laws.check("pair_pow_zero_unity", e.pow(&zero)?.is_unity()?, "e.pow(0) is not unity");
    laws.eq_gt("pair_pow_one", &e.pow(&one)?, &e, "e.pow(1) vs e");
    laws.eq_gt("pair_mul_unity", &e.mul(&unity)?, &e, "e.mul(unity) vs e");
    laws.eq_gt("pair_mul_comm", &e.pow(a)?.mul(&e.pow(b)?)?, &e.pow(b)?.mul(&e.pow(a)?)?, "x.mul(y) vs y.mul(x)");
    laws.eq_gt("pair_bytes_roundtrip", &vf::Pair::from_bytes(&e.to_bytes()?)?, &e, "from_bytes(to_bytes(e)) vs e");
    // identity and non-degeneracy
    // regression (fixed: pair(inf,inf) and pair2 with an (inf,inf) pair returned the zero element
    // of FP12): a pairing with the identity on either side, or on both, is unity
    laws.check("pair_identity_is_unity", pr(&inf1, &q)?.is_unity()?, "pair(inf,Q) is not unity");
    laws.check("pair_identity_is_unity", pr(&p, &inf2)?.is_unity()?, "pair(P,inf) is not unity");
    laws.check("pair_identity_is_unity", pr(&inf1, &inf2)?.is_unity()?, "pair(inf,inf) is not unity");
    laws.eq_gt("pair_identity_is_unity", &pr(&inf1, &inf2)?, &unity, "pair(inf,inf) vs new_unity()");
    laws.eq_gt("pair_identity_is_unity", &pr(&inf1, &inf2)?, &e.pow(&zero)?, "pair(0*P,0*Q) vs pair(P,Q).pow(0)");
    laws.eq_gt("pair2_identity_slot", &pr2(&p, &q, &inf1, &s_pt)?, &e, "pair2(P,Q,inf,S) vs pair(P,Q)");
    laws.eq_gt("pair2_identity_slot", &pr2(&p, &q, &r_pt, &inf2)?, &e, "pair2(P,Q,R,inf) vs pair(P,Q)");
    laws.eq_gt("pair2_identity_slot", &pr2(&p, &q, &inf1, &inf2)?, &e, "pair2(P,Q,inf,inf) vs pair(P,Q)");
    laws.eq_gt("pair2_identity_slot", &pr2(&inf1, &inf2, &p, &q)?, &e, "pair2(inf,inf,P,Q) vs pair(P,Q)");
    laws.check("pair2_identity_slot", pr2(&inf1, &inf2, &inf1, &inf2)?.is_unity()?, "pair2(inf,inf,inf,inf) is not unity");
    // regression (fixed: Pair::inverse did not reduce): the inverse of unity has the encoding of unity
    laws.check("pair_inverse_canonical", gt_canon(&unity.inverse()?) == gt_canon(&unity), "new_unity().inverse().to_bytes() differs from new_unity().to_bytes()");
    laws.check("pair_inverse_canonical", gt_canon(&e.pow(&zero)?.inverse()?) == gt_canon(&e.pow(&zero)?), "e.pow(0).inverse().to_bytes() differs from e.pow(0).to_bytes()");
    laws.check("pair_inverse_canonical", gt_canon(&einv.inverse()?) == gt_canon(&e), "e.inverse().inverse().to_bytes() differs from e.to_bytes()");
    let degenerate = p.is_inf()? || q.is_inf()?;
    laws.check("pair_nondegenerate", e.is_unity()? == degenerate, &format!("pair(P,Q).is_unity() is {} for P,Q {}", e.is_unity()?, if degenerate { "with an identity" } else { "both non-identity" }));

    Ok(json!({"ab": sc_hex(&ab), "a_plus_b": sc_hex(&apb), "a_minus_b": sc_hex(&amb), "neg_a": sc_hex(&nega), "r_minus_1": sc_hex(&rm1)}))
}

fn pairings(em: &mut Em, thorough: bool, rng: &mut Rng) -> Result<(), String> {
    let edges: Vec<(String, Sc)> = vec![
        ("0".into(), Sc::from_bytes(&[]).unwrap()),
        ("1".into(), Sc::new_u32(1).unwrap()),
        ("2".into(), Sc::new_u32(2).unwrap()),
        ("r-1".into(), sc_from_hex(&r_plus(-1))?),
        ("(r+1)/2".into(), Sc::new_u32(2).unwrap().inverse().map_err(|e| e.to_string())?),
    ];
    let mut plan: Vec<(String, Sc, String, Sc, u8)> = vec![];
    for (la, a) in &edges {
        for (lb, b) in &edges {
            plan.push((la.clone(), *a, lb.clone(), *b, 0));
        }
    }
    let n = if thorough { 600 } else { 60 };
    for i in 0..n {
        let inf_variant = if i % 20 == 7 { 1 } else if i % 20 == 13 { 2 } else { 0 };
        plan.push(("rand".into(), rand_scalar(rng), "rand".into(), rand_scalar(rng), inf_variant));
        if i % 6 == 0 {
            let (le, e) = rng.pick(&edges).clone();
            plan.push(("rand".into(), rand_scalar(rng), le.clone(), e, 0));
            plan.push((le, e, "rand".into(), rand_scalar(rng), 0));
        }
    }
    for (la, a, lb, b, inf_variant) in plan {
        let (x, y) = (rand_scalar(rng), rand_scalar(rng));
        let mut laws = Laws { failed: vec![], checked: 0, ctx: format!("a={} b={} P=g1^{} Q=g2^{} identity_variant={}", sc_hex(&a), sc_hex(&b), sc_hex(&x), sc_hex(&y), inf_variant) };
        let o = guard(|| pair_case(&a, &b, &x, &y, inf_variant, &mut laws));
        let mut imp = match &o {
            Out::Ok(v) => json!({"status": "ok", "scalars": v}),
            _ => json!({"status": o.tag(), "msg": o.msg().chars().take(120).collect::<String>()}),
        };
        if !o.is_ok() {
            laws.failed.push(json!({"name": "wrapper_call_fails", "detail": format!("a point/pairing wrapper returned {} ({}) [{}]", o.tag(), o.msg().chars().take(120).collect::<String>(), laws.ctx)}));
        }
        imp["oracles"] = json!(laws.failed);
        imp["laws_checked"] = json!(laws.checked);
        em.case("pair_case", json!({"a": sc_hex(&a), "b": sc_hex(&b)}), imp,
                json!({"part": "pairing", "operands": format!("{},{}", la, lb), "identity": match inf_variant { 1 => "P=inf", 2 => "Q=inf", _ => "none" }}));
    }
    Ok(())
}

// ------------------------------------------------------------------ (c) (d) four_squares

/// the largest delta exercised: what the parameter type of `four_squares` can carry, capped at
/// the largest predicate delta 2^32-1 (compiles with an i32 as well as an i64 parameter)
trait DeltaParam: Copy {
    const MAX: i64;
}
impl DeltaParam for i32 {
    const MAX: i64 = i32::MAX as i64;
}
impl DeltaParam for i64 {
    const MAX: i64 = 4294967295;
}
fn param_max<T: DeltaParam, R>(_f: fn(T) -> R) -> i64 {
    T::MAX
}
fn param_min<T: DeltaParam, R>(_f: fn(T) -> R) -> i64 {
    if T::MAX == i32::MAX as i64 {
        i32::MIN as i64
    } else {
        i64::MIN
    }
}

fn fs_call(delta: i64) -> Out<[u64; 4]> {
    guard(|| -> Result<[u64; 4], String> {
        let m = vf::four_squares(delta as _).map_err(|e| e.to_string())?;
        let mut out = [0u64; 4];
        for (i, slot) in out.iter_mut().enumerate() {
            let b = m.get(&i.to_string()).ok_or_else(|| format!("root {} missing", i))?;
            *slot = b.to_dec().map_err(|e| e.to_string())?.parse::<u64>().map_err(|e| e.to_string())?;
        }
        if m.len() != 4 {
            return Err(format!("{} entries", m.len()));
        }
        Ok(out)
    })
}

/// one case line for a list / range of deltas.
/// predicted cost > `budget_impl`: not run at all ("skipped" on both sides);
/// predicted cost > `budget_model`: run on the real code (direct oracles apply) but not by the
/// model, which is ~40x slower (the harness sends the list `skip`, the model answers "skipped").
fn fs_block(em: &mut Em, inp: Value, deltas: &mut dyn Iterator<Item = i64>, class: Value, budget_impl: f64, budget_model: f64) {
    let mut results = vec![];
    let mut oracles = vec![];
    let mut skip: Vec<i64> = vec![];
    let (mut n, mut n_impl_only, mut n_skipped) = (0usize, 0usize, 0usize);
    for d in deltas {
        let cost = fs_cost(d, budget_impl as u64) as f64;
        if cost > budget_impl {
            skip.push(d);
            n_skipped += 1;
            results.push(json!("skipped"));
            continue;
        }
        if cost > budget_model {
            skip.push(d);
            n_impl_only += 1;
        } else {
            n += 1;
        }
        let o = fs_call(d);
        match &o {
            Out::Ok(r) => {
                let s: u128 = r.iter().map(|x| (*x as u128) * (*x as u128)).sum();
                if d < 0 {
                    oracles.push(json!({"name": "four_squares_negative_refused", "detail": format!("four_squares({}) returned Ok({:?}) for a negative delta", d, r)}));
                } else if s != d as u128 {
                    oracles.push(json!({"name": "four_squares_sum", "detail": format!("four_squares({}) = {:?}: squares sum to {}", d, r, s)}));
                } else {
                    // the f64 step: on a perfect square k^2 the search must stop at once with (k,0,0,0)
                    // (sqrt rounded down would miss it); the first root can never exceed isqrt(d)
                    // (sqrt rounded up makes the code compute d - roots[0]^2 < 0)
                    let k = isqrt(d as u64);
                    if d > 0 && k * k == d as u64 && *r != [k, 0, 0, 0] {
                        oracles.push(json!({"name": "sqrt_breakpoint", "detail": format!("four_squares({}^2) = {:?}, expected ({},0,0,0): largest_square_less_than({}) is not {}", k, r, k, d, k)}));
                    }
                    if r[0] > k {
                        oracles.push(json!({"name": "sqrt_breakpoint", "detail": format!("four_squares({}) = {:?}: first root exceeds isqrt = {}", d, r, k)}));
                    }
                }
                results.push(json!(r));
            }
            _ => {
                if d >= 0 {
                    oracles.push(json!({"name": "four_squares_total", "detail": format!("four_squares({}) {} ({}) for a non-negative delta", d, o.tag(), o.msg().chars().take(80).collect::<String>())}));
                } else if matches!(o, Out::Panic(_)) {
                    oracles.push(json!({"name": "four_squares_negative_refused", "detail": format!("four_squares({}) panics instead of returning Err", d)}));
                }
                results.push(json!(o.tag()));
            }
        }
    }
    let mut inp = inp;
    inp["mode"] = json!(crate::reg::mode_str());
    inp["skip"] = json!(skip);
    let mut class = class;
    class["count"] = json!({"deltas_impl_and_model": n, "deltas_impl_only_model_too_slow": n_impl_only, "deltas_not_run_too_slow": n_skipped});
    em.case("four_squares", inp, json!({"results": results, "oracles": oracles}), class);
}

/// Legendre: n is a sum of three squares iff it is not of the form 4^x (8y + 7)
fn three_squares(mut n: u64) -> bool {
    while n != 0 && n % 4 == 0 {
        n /= 4;
    }
    n % 8 != 7
}

/// number of loop iterations `four_squares(d)` performs (an independent integer re-run of the
/// search that only counts), capped at `cap`. Used to keep slow deltas away from the Lean model
/// (~40x slower than the real code): first roots failing Legendre's test are skipped by the code
/// since the fix in /repo, but a feasible first root can still need ~1e8 iterations at the j level
/// (e.g. 4^14 * 7), which is seconds on the real code and minutes in the model.
fn fs_cost(d: i64, cap: u64) -> u64 {
    if d <= 0 {
        return 0;
    }
    let d = d as u64;
    let mut cost = 0u64;
    let mut i = isqrt(d);
    while i >= 1 {
        cost += 1;
        let r1 = d - i * i;
        if r1 == 0 {
            return cost;
        }
        if three_squares(r1) {
            let mut j = isqrt(r1);
            while j >= 1 {
                cost += 1;
                let r2 = r1 - j * j;
                if r2 == 0 {
                    return cost;
                }
                let mut k = isqrt(r2);
                while k >= 1 {
                    cost += 1;
                    let r3 = r2 - k * k;
                    let l = isqrt(r3);
                    if l * l == r3 {
                        return cost;
                    }
                    k -= 1;
                }
                if cost > cap {
                    return cost;
                }
                j -= 1;
            }
        }
        i -= 1;
    }
    cost
}

fn isqrt(n: u64) -> u64 {
    let mut x = (n as f64).sqrt() as u64;
    while x * x > n {
        x -= 1;
    }
    while (x + 1) * (x + 1) <= n {
        x += 1;
    }
    x
}

fn four_squares(em: &mut Em, thorough: bool, rng: &mut Rng) -> Result<(), String> {
    let dmax = param_max(vf::four_squares as fn(_) -> _);
    let dmin = param_min(vf::four_squares as fn(_) -> _);
    // per-delta budget of predicted inner-loop iterations (release: ~10 ns each; the model is slower)
    // iteration budgets (see fs_cost): the real code runs everything up to budget_impl (nothing
    // below 2^32 is known to exceed it); the model follows up to budget_model; stratified samples are
    // redrawn until they are within budget_model; a fixed list of hard values gets budget_hard
    let budget_impl: f64 = 1e9;
    let budget_model: f64 = if thorough { 3e5 } else { 1e5 };
    let budget_hard: f64 = if thorough { 2e7 } else { 3e6 };
    let budget = budget_model;
    // (c) exhaustive prefix
    let top: i64 = if thorough { 1 << 22 } else { 1 << 16 };
    let step: i64 = 8192;
    let mut lo = 0i64;
    while lo <= top {
        let n = std::cmp::min(step, top + 1 - lo);
        fs_block(em, json!({"lo": lo, "n": n}), &mut (lo..lo + n), json!({"part": "four_squares", "kind": "exhaustive_prefix"}), budget_impl, if thorough { budget_model } else { 3e6 });
        lo += n;
    }
    // negative input
    let negs: Vec<i64> = vec![-1, -2, -4, -7, -65536, -(1 << 30), dmin, dmin + 1, -(rng.below(1 << 31) as i64) - 1, -(rng.below(1 << 20) as i64) - 1];
    fs_block(em, json!({"deltas": negs}), &mut negs.clone().into_iter(), json!({"part": "four_squares", "kind": "negative"}), budget_impl, budget_model);

    // hard values: 2*4^k, 4^a(8b+7) with large a, top of the range (the real code runs all of them)
    let mut hard: Vec<i64> = vec![];
    for k in 8..=15 {
        hard.push(2 * (1i64 << (2 * k)));
        hard.push(7 * (1i64 << (2 * k)));
        hard.push(15 * (1i64 << (2 * k)));
        hard.push(23 * (1i64 << (2 * k)));
        hard.push(3 * (1i64 << (2 * k)));
        hard.push(6 * (1i64 << (2 * k)));
        hard.push(14 * (1i64 << (2 * k)));
        hard.push((1i64 << (2 * k)) * 31);
        hard.push((1i64 << (2 * k)) - 1);
        hard.push((1i64 << (2 * k + 1)) - 1);
    }
    hard.extend_from_slice(&[dmax, dmax - 1, dmax - 2, dmax - 7, i32::MAX as i64, i32::MAX as i64 + 1, 536870912, 1879048192, 4026531840]);
    hard.retain(|d| *d >= 0 && *d <= dmax);
    hard.sort();
    hard.dedup();
    fs_block(em, json!({"deltas": hard}), &mut hard.clone().into_iter(), json!({"part": "four_squares", "kind": "hard_list", "dmax": dmax}), budget_impl, budget_hard);

    // (c) stratified samples up to dmax
    let total = if thorough { 200_000 } else { 20_000 };
    let kmax = isqrt(dmax as u64) as i64;
    let mut strata: Vec<(&'static str, Vec<i64>)> = vec![];
    let per = total / 8;
    // candidates are redrawn while their predicted cost exceeds the budget (see predicted_cost)
    let mut rejected = 0usize;
    let mut fill = |name: &'static str, rng: &mut Rng, draw: &mut dyn FnMut(&mut Rng) -> Option<i64>, strata: &mut Vec<(&'static str, Vec<i64>)>| {
        let mut v = vec![];
        while v.len() < per {
            if let Some(d) = draw(rng) {
                if d < 0 || d > dmax {
                    continue;
                }
                if fs_cost(d, budget as u64) as f64 > budget {
                    rejected += 1;
                    continue;
                }
                v.push(d);
            }
        }
        strata.push((name, v));
    };
    // 4^a (8b+7): exactly the numbers that need four non-zero squares
    fill("4^a(8b+7)", rng, &mut |rng| {
        let a = rng.below(16) as u32;
        let unit = 1i64 << (2 * a);
        let bmax = (dmax / unit - 7) / 8;
        if bmax < 0 {
            return None;
        }
        let b = if rng.chance(1, 2) { rng.below(bmax as u64 + 1) as i64 } else { bmax - rng.below(std::cmp::min(bmax as u64 + 1, 1000)) as i64 };
        Some(unit * (8 * b + 7))
    }, &mut strata);
    for (name, off) in [("k^2-1", -1i64), ("k^2", 0), ("k^2+1", 1)] {
        fill(name, rng, &mut |rng| {
            let k = if rng.chance(1, 3) { kmax - rng.below(2000) as i64 } else { 1 + rng.below(kmax as u64) as i64 };
            Some(k * k + off)
        }, &mut strata);
    }
    // powers of two and neighbours, sums / differences of two powers of two
    let bits = 64 - (dmax as u64).leading_zeros() as u64;
    fill("powers_of_two", rng, &mut |rng| {
        let a = rng.below(bits);
        let b = rng.below(bits);
        Some(match rng.below(5) {
            0 => 1i64 << a,
            1 => (1i64 << a) - 1,
            2 => (1i64 << a) + 1,
            3 => (1i64 << a) + (1i64 << b),
            _ => (1i64 << a) - (1i64 << std::cmp::min(a, b)) + rng.below(3) as i64,
        })
    }, &mut strata);
    fill("uniform", rng, &mut |rng| Some(rng.below(dmax as u64 + 1) as i64), &mut strata);
    fill("log_uniform", rng, &mut |rng| {
        let b = 1 + rng.below(bits);
        Some((rng.next() & ((1u64 << b) - 1)) as i64)
    }, &mut strata);
    fill("top_of_range", rng, &mut |rng| Some(dmax - rng.below(1 << 16) as i64), &mut strata);
    let _ = fill;
    eprintln!("c19 four_squares: {} stratified candidates redrawn because their cost exceeds the model budget {:e}", rejected, budget);
    for (name, v) in strata {
        for chunk in v.chunks(2000) {
            fs_block(em, json!({"deltas": chunk}), &mut chunk.to_vec().into_iter(), json!({"part": "four_squares", "kind": name, "dmax": dmax}), budget_impl, budget_model);
        }
    }

    // (d) every breakpoint of largest_square_less_than below dmax: k^2 must give (k,0,0,0)
    //     (sqrt not rounded down) and k^2-1 must not start above k-1 (sqrt not rounded up:
    //     the code would compute d - k^2 < 0)
    let mut k = 1i64;
    while k <= kmax {
        let hi = std::cmp::min(k + 2048, kmax + 1);
        let mut ds = vec![];
        for kk in k..hi {
            ds.push(kk * kk - 1);
            ds.push(kk * kk);
        }
        fs_block(em, json!({"deltas": ds}), &mut ds.clone().into_iter(), json!({"part": "four_squares", "kind": "sqrt_breakpoints", "dmax": dmax}), budget_impl, budget_model);
        k = hi;
    }
    Ok(())
}
