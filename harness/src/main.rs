//! clh — correspondence harness: runs the real anoncreds-clsignatures code in-process.
//!   clh mkfixtures [--force]
//!   clh gen <stream> --tier quick|thorough --seed N     (case lines on stdout)
//!   clh exec                                            (op lines on stdin -> result lines)
mod exec;
mod fixtures;
mod reg;
mod rng;
mod util;

use rng::Rng;
use serde_json::json;
use util::*;

fn arg_val(args: &[String], name: &str) -> Option<String> {
    args.iter().position(|a| a == name).and_then(|i| args.get(i + 1).cloned())
}

fn backend() -> &'static str {
    if cfg!(feature = "ossl") {
        "openssl"
    } else {
        "rust"
    }
}

fn gen(stream: &str, tier: &str, seed: u64) -> Result<(), String> {
    let mut rng = Rng::new(seed);
    let thorough = tier == "thorough";
    match stream {
        "reg" => {
            let cd = fixtures::load_fixture("gvt_rev")?;
            // corpus first: boundary histories chosen at design time
            let corpus: Vec<(u32, bool, Vec<serde_json::Value>)> = vec![
                (2, false, vec![json!({"op":"issue","i":2}), json!({"op":"revoke","i":0})]),
                (2, false, vec![json!({"op":"issue","i":1}), json!({"op":"revoke","i":3}), json!({"op":"revoke","i":4})]),
                (3, true, vec![json!({"op":"revoke","i":4294967295u32}), json!({"op":"unrevoke","i":0}), json!({"op":"update","issued":[0],"revoked":[]})]),
                (3, false, vec![json!({"op":"issue","i":2}), json!({"op":"issue","i":3}), json!({"op":"revoke","i":2}), json!({"op":"unrevoke","i":2}), json!({"op":"update","issued":[1],"revoked":[3]})]),
                (1, true, vec![json!({"op":"issue","i":1}), json!({"op":"revoke","i":1}), json!({"op":"unrevoke","i":1})]),
                (4, true, vec![json!({"op":"issue","i":2}), json!({"op":"update","issued":[],"revoked":[1,2,3]}), json!({"op":"update","issued":[2,3],"revoked":[4]}), json!({"op":"issue","i":4})]),
            ];
            let opts = reg::HistOpts { max_l: 32, max_depth: 40, with_holders: true, illformed_pct: 4, wild_pct: 10 };
            for (k, (l, bd, ops)) in corpus.into_iter().enumerate() {
                for c in reg::run_history(&cd, &mut rng, &format!("reg/corpus/{}", k), &opts, Some((l, bd, ops)))? {
                    emit(&c);
                }
            }
            let n = if thorough { 1500 } else { 40 };
            for k in 0..n {
                for c in reg::run_history(&cd, &mut rng, &format!("reg/{}", k), &opts, None)? {
                    emit(&c);
                }
            }
            if thorough {
                // exhaustive tree L<=3 (indices 0..=L+1, three single-index ops), depth <= 3; depth 4 for L<=2
                let opts2 = reg::HistOpts { max_l: 3, max_depth: 4, with_holders: false, illformed_pct: 0, wild_pct: 0 };
                let mut k = 0;
                for l in 1..=3u32 {
                    let maxd = if l <= 2 { 4 } else { 3 };
                    for d in 1..=maxd {
                        for script in reg::enumerate_scripts(l, d) {
                            for bd in [false, true] {
                                for c in reg::run_history(&cd, &mut rng, &format!("reg/tree/{}", k), &opts2, Some((l, bd, script.clone())))? {
                                    emit(&c);
                                }
                                k += 1;
                            }
                        }
                    }
                }
            }
            Ok(())
        }
        "tails" => {
            let cd = fixtures::load_fixture("gvt_rev")?;
            let maxl = if thorough { 64 } else { 24 };
            for l in 1..=maxl {
                emit(&reg::run_tails(&cd, l, &format!("tails/{}", l))?);
            }
            let extra = if thorough { 12 } else { 2 };
            for k in 0..extra {
                let l = 65 + rng.below(if thorough { 9936 } else { 400 }) as u32;
                emit(&reg::run_tails(&cd, l, &format!("tails/sampled/{}", k))?);
            }
            Ok(())
        }
        s => Err(format!("unknown stream {}", s)),
    }
}

fn main() {
    silence_panics();
    let args: Vec<String> = std::env::args().collect();
    let cmd = args.get(1).map(|s| s.as_str()).unwrap_or("");
    let r = match cmd {
        "mkfixtures" => fixtures::make_fixtures(args.iter().any(|a| a == "--force")),
        "gen" => {
            let stream = args.get(2).cloned().unwrap_or_default();
            let tier = arg_val(&args, "--tier").unwrap_or_else(|| "quick".into());
            let seed = arg_val(&args, "--seed").and_then(|s| s.parse().ok()).unwrap_or(1);
            eprintln!("clh gen {} tier={} seed={} backend={} mode={}", stream, tier, seed, backend(), reg::mode_str());
            gen(&stream, &tier, seed)
        }
        "exec" => {
            exec::run();
            Ok(())
        }
        "info" => {
            println!("{}", json!({"backend": backend(), "mode": reg::mode_str()}));
            Ok(())
        }
        _ => Err("usage: clh mkfixtures | gen <stream> --tier T --seed N | exec | info".into()),
    };
    if let Err(e) = r {
        // a harness failure is reported on stdout as a case line so that `check` sees it
        emit(&json!({"id": "harness-error", "op": "harness_error", "error": e}));
        std::process::exit(3);
    }
}
