//! clh — correspondence harness: runs the real anoncreds-clsignatures code in-process.
//!   clh mkfixtures [--force]
//!   clh gen <stream> --tier quick|thorough --seed N     (case lines on stdout)
//!   clh exec                                            (op lines on stdin -> result lines)
mod blind;
mod bn;
mod c19;
mod c20;
mod exec;
mod fixtures;
mod forge;
mod issuance;
mod nr;
mod pres;
mod reg;
mod tamper;
mod rng;
mod ser;
mod util;

use rng::Rng;
use serde_json::json;
use util::*;

fn arg_val(args: &[String], name: &str) -> Option<String> {
    args.iter().position(|a| a == name).and_then(|i| args.get(i + 1).cloned())
}

fn backend() -> &'static str {
    if cfg!(feature = "ossl") {
        "openssl"
    } else {
        "rust"
    }
}

/// every area contributes `gen(stream, thorough, rng) -> Option<Result<(), String>>` (None = not mine);
/// add new areas to this list (one line each)
fn gen(stream: &str, tier: &str, seed: u64) -> Result<(), String> {
    let mut rng = Rng::new(seed);
    let thorough = tier == "thorough";
    let gens: Vec<fn(&str, bool, &mut Rng) -> Option<Result<(), String>>> = vec![reg::gen, pres::gen, issuance::gen, nr::gen, blind::gen, bn::gen, c19::gen, c20::gen, ser::gen, forge::gen];
    for g in gens {
        if let Some(r) = g(stream, thorough, &mut rng) {
            return r;
        }
    }
    Err(format!("unknown stream {}", stream))
}

fn main() {
    silence_panics();
    let args: Vec<String> = std::env::args().collect();
    let cmd = args.get(1).map(|s| s.as_str()).unwrap_or("");
    let r = match cmd {
        "mkfixtures" => fixtures::make_fixtures(args.iter().any(|a| a == "--force")),
        "mkgolden" => if args.iter().any(|a| a == "--rebin") { ser::rebin_golden() } else { ser::make_golden(args.iter().any(|a| a == "--force")) },
        "gen" => {
            let stream = args.get(2).cloned().unwrap_or_default();
            let tier = arg_val(&args, "--tier").unwrap_or_else(|| "quick".into());
            let seed = arg_val(&args, "--seed").and_then(|s| s.parse().ok()).unwrap_or(1);
            eprintln!("clh gen {} tier={} seed={} backend={} mode={}", stream, tier, seed, backend(), reg::mode_str());
            gen(&stream, &tier, seed)
        }
        "exec" => {
            exec::run();
            Ok(())
        }
        "info" => {
            println!("{}", json!({"backend": backend(), "mode": reg::mode_str()}));
            Ok(())
        }
        _ => Err("usage: clh mkfixtures | gen <stream> --tier T --seed N | exec | info".into()),
    };
    if let Err(e) = r {
        // a harness failure is reported on stdout as a case line so that `check` sees it
        emit(&json!({"id": "harness-error", "op": "harness_error", "error": e}));
        std::process::exit(3);
    }
}
