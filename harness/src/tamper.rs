//! C02/C03/C11: single-field and structural alterations of honest proofs
use crate::fixtures::issue;
use crate::pres::*;
use crate::rng::Rng;
use crate::util::*;
use anoncreds_clsignatures::*;
use serde_json::{json, Value};

/// decimal string + small integer (schoolbook; handles a leading '-')
pub fn dec_add(s: &str, d: i64) -> String {
    // parse into i128 when it fits, otherwise operate on the digit string
    if let Ok(v) = s.parse::<i128>() {
        return (v + d as i128).to_string();
    }
    let neg = s.starts_with('-');
    let mut digits: Vec<i32> = s.trim_start_matches('-').bytes().rev().map(|b| (b - b'0') as i32).collect();
    let delta = if neg { -d } else { d };
    // magnitude is huge compared to |d| <= 2^31: add/sub on the low digits with borrow
    let mut carry = delta as i64;
    let mut i = 0;
    while carry != 0 {
        if i == digits.len() {
            digits.push(0);
        }
        let v = digits[i] as i64 + carry;
        let nd = v.rem_euclid(10);
        carry = (v - nd) / 10;
        digits[i] = nd as i32;
        i += 1;
    }
    while digits.len() > 1 && *digits.last().unwrap() == 0 {
        digits.pop();
    }
    let body: String = digits.iter().rev().map(|d| (b'0' + *d as u8) as char).collect();
    if neg { format!("-{}", body) } else { body }
}

pub struct Alteration {
    pub name: String,
    pub proof: Value,
    pub nonce_delta: i64,
    /// the alteration changes the value of a hashed / hash-determining component
    pub value_changing: bool,
}

fn bump(v: &mut Value, d: i64) -> bool {
    if let Some(s) = v.as_str() {
        *v = json!(dec_add(s, d));
        true
    } else {
        false
    }
}

/// all single-field alterations of a proof document
pub fn alterations(proof: &Value, rng: &mut Rng, full: bool) -> Vec<Alteration> {
    let mut out = vec![];
    let mut add = |name: String, p: Value, vc: bool| out.push(Alteration { name, proof: p, nonce_delta: 0, value_changing: vc });
    let nsub = proof["proofs"].as_array().map(|a| a.len()).unwrap_or(0);
    for i in 0..nsub {
        let eqp = format!("/proofs/{}/primary_proof/eq_proof", i);
        for f in ["a_prime", "e", "v", "m2"] {
            for d in [1i64, -1] {
                if !full && d == -1 && f != "e" {
                    continue;
                }
                let mut p = proof.clone();
                if bump(p.pointer_mut(&format!("{}/{}", eqp, f)).unwrap(), d) {
                    add(format!("eq.{}{:+}", f, d), p, true);
                }
            }
        }
        {
            let mut p = proof.clone();
            *p.pointer_mut(&format!("{}/e", eqp)).unwrap() = json!("0");
            add("eq.e=0".into(), p, true);
        }
        for map in ["m", "revealed_attrs"] {
            let keys: Vec<String> = proof.pointer(&format!("{}/{}", eqp, map)).and_then(|m| m.as_object()).map(|m| m.keys().cloned().collect()).unwrap_or_default();
            for k in &keys {
                let mut p = proof.clone();
                if bump(p.pointer_mut(&format!("{}/{}/{}", eqp, map, k.replace('~', "~0").replace('/', "~1"))).unwrap(), 1) {
                    add(format!("eq.{}[{}]+1", map, k), p, true);
                }
            }
            if keys.len() >= 2 {
                // swap two entries
                let (a, b) = (&keys[0], &keys[1]);
                let mut p = proof.clone();
                let m = p.pointer_mut(&format!("{}/{}", eqp, map)).unwrap().as_object_mut().unwrap();
                let (va, vb) = (m[a].clone(), m[b].clone());
                if va != vb {
                    m.insert(a.clone(), vb);
                    m.insert(b.clone(), va);
                    add(format!("eq.{} swap {}<->{}", map, a, b), p, true);
                }
            }
            if let Some(k) = keys.first() {
                let mut p = proof.clone();
                p.pointer_mut(&format!("{}/{}", eqp, map)).unwrap().as_object_mut().unwrap().remove(k);
                add(format!("eq.{} remove {}", map, k), p, true);
            }
        }
        let nne = proof.pointer(&format!("/proofs/{}/primary_proof/ge_proofs", i)).and_then(|a| a.as_array()).map(|a| a.len()).unwrap_or(0);
        for j in 0..nne {
            let nep = format!("/proofs/{}/primary_proof/ge_proofs/{}", i, j);
            for f in ["mj", "alpha"] {
                let mut p = proof.clone();
                if bump(p.pointer_mut(&format!("{}/{}", nep, f)).unwrap(), 1) {
                    add(format!("ne{}.{}+1", j, f), p, true);
                }
            }
            for map in ["u", "r", "t"] {
                let keys: Vec<String> = proof.pointer(&format!("{}/{}", nep, map)).and_then(|m| m.as_object()).map(|m| m.keys().cloned().collect()).unwrap_or_default();
                for k in &keys {
                    if !full && rng.chance(1, 2) {
                        continue;
                    }
                    let mut p = proof.clone();
                    if bump(p.pointer_mut(&format!("{}/{}/{}", nep, map, k)).unwrap(), 1) {
                        add(format!("ne{}.{}[{}]+1", j, map, k), p, true);
                    }
                }
                if let Some(k) = keys.first() {
                    let mut p = proof.clone();
                    p.pointer_mut(&format!("{}/{}", nep, map)).unwrap().as_object_mut().unwrap().remove(k);
                    add(format!("ne{}.{} remove {}", j, map, k), p, true);
                }
            }
            // predicate: threshold and direction
            for d in [1i64, -1] {
                let mut p = proof.clone();
                let v = p.pointer(&format!("{}/predicate/value", nep)).and_then(|x| x.as_i64()).unwrap_or(0);
                let nv = v + d;
                if nv >= i32::MIN as i64 && nv <= i32::MAX as i64 {
                    *p.pointer_mut(&format!("{}/predicate/value", nep)).unwrap() = json!(nv);
                    add(format!("ne{}.predicate.value{:+}", j, d), p, true);
                }
            }
            {
                let mut p = proof.clone();
                let t = p.pointer(&format!("{}/predicate/p_type", nep)).and_then(|x| x.as_str()).unwrap_or("GE").to_string();
                let nt = match t.as_str() { "GE" => "GT", "GT" => "GE", "LE" => "LT", _ => "LE" };
                *p.pointer_mut(&format!("{}/predicate/p_type", nep)).unwrap() = json!(nt);
                add(format!("ne{}.predicate.p_type {}->{}", j, t, nt), p, true);
            }
            {
                let mut p = proof.clone();
                let t = p.pointer(&format!("{}/predicate/p_type", nep)).and_then(|x| x.as_str()).unwrap_or("GE").to_string();
                let nt = match t.as_str() { "GE" => "LE", "GT" => "LT", "LE" => "GE", _ => "GT" };
                *p.pointer_mut(&format!("{}/predicate/p_type", nep)).unwrap() = json!(nt);
                add(format!("ne{}.predicate.p_type {}->{}", j, t, nt), p, true);
            }
        }
        if nne >= 1 {
            let mut p = proof.clone();
            p.pointer_mut(&format!("/proofs/{}/primary_proof/ge_proofs", i)).unwrap().as_array_mut().unwrap().remove(0);
            add("ne remove first".into(), p, true);
            let mut p = proof.clone();
            let a = p.pointer_mut(&format!("/proofs/{}/primary_proof/ge_proofs", i)).unwrap().as_array_mut().unwrap();
            let first = a[0].clone();
            a.push(first);
            add("ne duplicate first".into(), p, false);
        }
    }
    // aggregated proof
    for d in [1i64, -1] {
        let mut p = proof.clone();
        if bump(p.pointer_mut("/aggregated_proof/c_hash").unwrap(), d) {
            add(format!("c_hash{:+}", d), p, true);
        }
    }
    let ncl = proof.pointer("/aggregated_proof/c_list").and_then(|a| a.as_array()).map(|a| a.len()).unwrap_or(0);
    for k in 0..ncl {
        if !full && k > 1 && rng.chance(2, 3) {
            continue;
        }
        let mut p = proof.clone();
        let e = p.pointer_mut(&format!("/aggregated_proof/c_list/{}", k)).unwrap().as_array_mut().unwrap();
        if let Some(last) = e.last_mut() {
            let b = last.as_u64().unwrap_or(0);
            *last = json!((b + 1) % 256);
            add(format!("c_list[{}] last byte+1", k), p, true);
        }
    }
    if ncl > 0 {
        let mut p = proof.clone();
        p.pointer_mut("/aggregated_proof/c_list").unwrap().as_array_mut().unwrap().pop();
        add("c_list pop".into(), p, true);
        let mut p = proof.clone();
        p.pointer_mut("/aggregated_proof/c_list").unwrap().as_array_mut().unwrap().push(json!([1]));
        add("c_list push [1]".into(), p, true);
        if ncl >= 2 {
            let mut p = proof.clone();
            p.pointer_mut("/aggregated_proof/c_list").unwrap().as_array_mut().unwrap().swap(0, 1);
            add("c_list swap 0<->1".into(), p, true);
        }
    }
    // sub-proof structure
    if nsub >= 2 {
        let mut p = proof.clone();
        p["proofs"].as_array_mut().unwrap().swap(0, 1);
        add("subproofs swap 0<->1".into(), p, true);
    }
    {
        let mut p = proof.clone();
        p["proofs"].as_array_mut().unwrap().pop();
        add("subproofs drop last".into(), p, true);
        let mut p = proof.clone();
        let a = p["proofs"].as_array_mut().unwrap();
        let first = a[0].clone();
        a.push(first);
        add("subproofs duplicate first".into(), p, true);
    }
    // nonce
    out.push(Alteration { name: "nonce+1".into(), proof: proof.clone(), nonce_delta: 1, value_changing: true });
    out
}

pub fn gen_tamper(thorough: bool, rng: &mut Rng, only_pred: bool) -> Result<(), String> {
    let pool = Pool::load()?;
    let nsc = if thorough { 25 } else { 2 };
    let mut k = 0;
    // forced scenarios at the ends of the i32 range (tamper_ne): the honest non-strict proof with
    // delta = 0 relabelled to the strict type must not be accepted ('GT i32::MAX' is false of every value)
    let forced: Vec<(i64, &str)> = if only_pred { vec![(i32::MAX as i64, "GE"), (i32::MIN as i64, "LE"), (i32::MAX as i64 - 1, "GE"), (i32::MIN as i64 + 1, "LE")] } else { vec![] };
    for s in 0..nsc + forced.len() {
        // scenarios with at least one predicate and one revealed attribute
        let sc = if s >= nsc {
            let (age, pt) = forced[s - nsc];
            let link = dec_of_hex(&rng.hex_bits(255));
            let mut h = hold(&pool, "gvt_rev", &link, rng)?;
            h.known.insert("age".into(), age.to_string());
            h.cred = issue(pool.get("gvt_rev"), &h.known, &h.hidden, "p", None)?;
            let req = ReqSpec { revealed: vec!["name".to_string()], predicates: vec![PredSpec { attr: "age".into(), ptype: pt.into(), value: age as i32 }] };
            Scenario { held: vec![h], reqs: vec![req], common: vec![], nonce: new_nonce().map_err(|e| e.to_string())? }
        } else { loop {
            let sc = random_scenario(&pool, rng, true)?;
            let np: usize = sc.reqs.iter().map(|r| r.predicates.len()).sum();
            let nr: usize = sc.reqs.iter().map(|r| r.revealed.len()).sum();
            if np >= 1 && nr >= 1 && (s % 2 == 0 || sc.held.len() >= 2) {
                break sc;
            }
        } };
        // the first scenario uses an application-chosen 128-bit nonce, the second a 256-bit one: the alteration nonce+1
        // then changes a byte beyond the library's own 80 bits
        let mut sc = sc;
        if s < 2 {
            sc.nonce = bn::BigNumber::from_hex(&rng.hex_bits(if s == 0 { 128 } else { 256 })).map_err(|e| e.to_string())?;
        }
        let (_adds, proof) = prove(&pool, &sc);
        let proof = match proof {
            Out::Ok(p) => p,
            o => return Err(format!("tamper: honest proof could not be built: {} {}", o.tag(), o.msg())),
        };
        let base = jv(&proof);
        let nonce_dec = sc.nonce.to_dec().unwrap_or_default();
        // the untouched proof first
        let v0 = verify(&pool, &sc, &proof, &sc.nonce);
        let mut impl0 = out_bool_json(&v0);
        impl0["oracles"] = if matches!(v0, Out::Ok(true)) { json!([]) } else { json!([{"name":"honest_proof_verifies","ok":false,"detail":format!("untouched proof not accepted: {} {}", v0.tag(), v0.msg())}]) };
        emit(&verify_case(&format!("tamper/{}/base", s), &pool, &sc, &base, &nonce_dec, impl0, json!({"alteration":"none"})));
        // the proof made for nonce N shown under N + 2^80, N + 2^88, N + 2^128, N + 2^255: every byte of the
        // nonce is bound, also beyond the 80 bits the library's own nonces have (seventh seeding round: only the
        // low ten bytes were hashed)
        if !only_pred {
            for bits in [80usize, 88, 128, 255] {
                let shift = bn::BigNumber::from_hex(&format!("{}{}", ["1", "2", "4", "8"][bits % 4], "0".repeat(bits / 4))).map_err(|e| e.to_string())?;
                let n2 = sc.nonce.add(&shift).map_err(|e| e.to_string())?;
                let res = verify(&pool, &sc, &proof, &n2);
                let mut oracles = vec![];
                if matches!(res, Out::Ok(true)) {
                    oracles.push(json!({"name":"altered_proof_rejected","ok":false,"detail":format!("proof made for nonce {} accepted after alteration 'nonce+2^{}'", nonce_dec, bits)}));
                }
                let mut implv = out_bool_json(&res);
                implv["oracles"] = json!(oracles);
                emit(&verify_case(&format!("tamper/{}/nonce-shift-{}", s, bits), &pool, &sc, &base, &n2.to_dec().unwrap_or_default(), implv,
                    json!({"alteration": "nonce+2^k", "ncred": sc.held.len()})));
            }
        }
        for alt in alterations(&base, rng, thorough) {
            if only_pred && !(alt.name.starts_with("ne") || alt.name.starts_with("eq.m[") || alt.name.starts_with("eq.m ")) {
                continue;
            }
            let nonce2_dec = dec_add(&nonce_dec, alt.nonce_delta);
            let nonce2 = bn::BigNumber::from_dec(&nonce2_dec).map_err(|e| e.to_string())?;
            let res: Out<bool> = match from_jv::<Proof>(&alt.proof) {
                Ok(p) => verify(&pool, &sc, &p, &nonce2),
                Err(e) => Out::Err(format!("decode: {}", e)),
            };
            let mut oracles = vec![];
            if alt.value_changing && matches!(res, Out::Ok(true)) {
                oracles.push(json!({"name":"altered_proof_rejected","ok":false,"detail":format!("proof accepted after alteration '{}'", alt.name)}));
            }
            if matches!(res, Out::Panic(_)) {
                oracles.push(json!({"name":"verify_no_panic","ok":false,"detail":format!("verify panicked after alteration '{}': {}", alt.name, res.msg())}));
            }
            let mut implv = out_bool_json(&res);
            implv["oracles"] = json!(oracles);
            let class_name: String = alt.name.split(|c: char| c == '[' || c.is_ascii_digit()).next().unwrap_or("").to_string();
            emit(&verify_case(&format!("tamper/{}/{}", s, k), &pool, &sc, &alt.proof, &nonce2_dec, implv,
                json!({"alteration": class_name, "ncred": sc.held.len()})));
            k += 1;
            // a relabelled / shifted predicate shown to a verifier that ASKS for the altered predicate:
            // the request-consistency check passes, only the predicate arithmetic stands in the way
            if alt.name.contains(".predicate.") {
                let mut reqs2 = sc.reqs.clone();
                let mut changed = false;
                if let (Some(subs0), Some(subs1)) = (base["proofs"].as_array(), alt.proof["proofs"].as_array()) {
                    for (si, (b, a)) in subs0.iter().zip(subs1.iter()).enumerate() {
                        let (g0, g1) = (b["primary_proof"]["ge_proofs"].as_array().cloned().unwrap_or_default(), a["primary_proof"]["ge_proofs"].as_array().cloned().unwrap_or_default());
                        for (p0, p1) in g0.iter().zip(g1.iter()) {
                            if p0["predicate"] != p1["predicate"] {
                                let (o, n) = (&p0["predicate"], &p1["predicate"]);
                                for ps in reqs2[si].predicates.iter_mut() {
                                    if !changed && ps.attr == o["attr_name"].as_str().unwrap_or("") && ps.ptype == o["p_type"].as_str().unwrap_or("") && ps.value as i64 == o["value"].as_i64().unwrap_or(i64::MAX) {
                                        ps.ptype = n["p_type"].as_str().unwrap_or("").to_string();
                                        ps.value = n["value"].as_i64().unwrap_or(0) as i32;
                                        changed = true;
                                    }
                                }
                            }
                        }
                    }
                }
                // the altered predicate must not coincide with another requested one (sets)
                let dup = reqs2.iter().any(|r| { let mut seen = std::collections::BTreeSet::new(); r.predicates.iter().any(|p| !seen.insert((p.attr.clone(), p.ptype.clone(), p.value))) });
                if changed && !dup {
                    let res: Out<bool> = match from_jv::<Proof>(&alt.proof) {
                        Ok(p) => verify_reqs(&pool, &sc, &reqs2, &p, &nonce2),
                        Err(e) => Out::Err(format!("decode: {}", e)),
                    };
                    let mut oracles = vec![];
                    if matches!(res, Out::Ok(true)) {
                        oracles.push(json!({"name":"altered_proof_rejected","ok":false,"detail":format!("proof accepted after alteration '{}' by a verifier asking for the altered predicate (ne relabelled)", alt.name)}));
                    }
                    if matches!(res, Out::Panic(_)) {
                        oracles.push(json!({"name":"verify_no_panic","ok":false,"detail":format!("verify panicked after alteration '{}' (request follows): {}", alt.name, res.msg())}));
                    }
                    let mut implv = out_bool_json(&res);
                    implv["oracles"] = json!(oracles);
                    emit(&verify_case_reqs(&format!("tamper/{}/{}r", s, k), &pool, &sc, &reqs2, &alt.proof, &nonce2_dec, implv,
                        json!({"alteration": format!("{} (request follows)", class_name), "ncred": sc.held.len()})));
                    k += 1;
                }
            }
        }
    }
    // a predicate proven about ANOTHER credential than the one the verifier asked about: two credentials of one
    // definition, age 17 and age 30; the verifier asks "age >= 18" of the first, the holder attaches the predicate
    // proof to the second (seventh seeding round: predicates compared over the whole proof, not per sub-proof)
    for (m, (lo, hi, th, pt)) in [(17i64, 30i64, 18i32, "GE"), (65, 40, 50, "LE"), (i32::MIN as i64, 5, 0, "GT")].iter().enumerate() {
        let link = dec_of_hex(&rng.hex_bits(255));
        let mut held = vec![];
        for age in [*lo, *hi] {
            let mut h = hold(&pool, "gvt_rev", &link, rng)?;
            h.known.insert("age".into(), age.to_string());
            h.cred = issue(pool.get("gvt_rev"), &h.known, &h.hidden, "p", None)?;
            held.push(h);
        }
        let with_pred = ReqSpec { revealed: vec!["name".to_string()], predicates: vec![PredSpec { attr: "age".into(), ptype: (*pt).into(), value: *th }] };
        let without = ReqSpec { revealed: vec!["name".to_string()], predicates: vec![] };
        // what the holder proves: the predicate on the SECOND credential (true of it)
        let sc = Scenario { held, reqs: vec![without.clone(), with_pred.clone()], common: vec!["master_secret".to_string()], nonce: new_nonce().map_err(|e| e.to_string())? };
        let (_adds, proof) = prove(&pool, &sc);
        let proof = match proof {
            Out::Ok(p) => p,
            o => return Err(format!("tamper: misplaced-predicate proof could not be built: {} {}", o.tag(), o.msg())),
        };
        // what the verifier asked: the predicate on the FIRST credential (false of it)
        let reqs_v = vec![with_pred, without];
        let res = verify_reqs(&pool, &sc, &reqs_v, &proof, &sc.nonce);
        let mut oracles = vec![];
        if matches!(res, Out::Ok(true)) {
            oracles.push(json!({"name":"altered_proof_rejected","ok":false,"detail":format!("ne proof placed on another sub-proof accepted: the verifier asked age {} {} of the credential holding {}, the predicate proof is attached to the credential holding {}", pt, th, lo, hi)}));
        }
        if matches!(res, Out::Panic(_)) {
            oracles.push(json!({"name":"verify_no_panic","ok":false,"detail":format!("verify panicked on a misplaced predicate: {}", res.msg())}));
        }
        let mut implv = out_bool_json(&res);
        implv["oracles"] = json!(oracles);
        emit(&verify_case_reqs(&format!("tamper/misplaced-predicate/{}", m), &pool, &sc, &reqs_v, &jv(&proof), &sc.nonce.to_dec().unwrap_or_default(), implv,
            json!({"alteration": "ne placed on another sub-proof", "ncred": 2})));
    }
    Ok(())
}
