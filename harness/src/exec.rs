//! `clh exec`: generic operations on the real code, one JSON op per line on stdin
use crate::util::*;
use anoncreds_clsignatures::verif as vf;
use serde_json::{json, Value};
use std::io::BufRead;

fn scalar_from_hex(h: &str) -> Result<vf::GroupOrderElement, String> {
    let mut s = h.to_string();
    if s.len() % 2 == 1 {
        s.insert(0, '0');
    }
    let b = unhex(&s.to_lowercase()).ok_or("bad hex")?;
    if b.len() > 32 {
        return Err("scalar too long".into());
    }
    vf::GroupOrderElement::from_bytes(&b).map_err(|e| e.to_string())
}

/// every area may contribute `exec(op, in) -> Option<Result<Value, String>>`; add to this list
fn area_execs() -> Vec<fn(&str, &Value) -> Option<Result<Value, String>>> {
    vec![crate::bn::exec, crate::issuance::exec, crate::nr::exec, crate::pres::exec, crate::ser::exec]
}

pub fn exec_one(v: &Value) -> Value {
    let op = v["op"].as_str().unwrap_or("");
    let inp = &v["in"];
    for f in area_execs() {
        if let Some(r) = crate::util::guard_inf(|| f(op, inp)).ok().flatten() {
            return match r {
                Ok(out) => json!({"id": v["id"], "out": out}),
                Err(e) => json!({"id": v["id"], "error": e}),
            };
        }
    }
    let r: Result<Value, String> = (|| match op {
        // base given as 128-byte affine hex, exponent as hex scalar -> 128-byte affine hex
        "g2mul" => {
            let base = vf::PointG2::from_bytes(&unhex(inp["base"].as_str().unwrap_or("")).ok_or("bad base")?).map_err(|e| e.to_string())?;
            let e = scalar_from_hex(inp["exp"].as_str().unwrap_or(""))?;
            Ok(json!(crate::reg::g2p_canon(&base.mul(&e).map_err(|e| e.to_string())?)))
        }
        "g1mul" => {
            let base = vf::PointG1::from_bytes(&unhex(inp["base"].as_str().unwrap_or("")).ok_or("bad base")?).map_err(|e| e.to_string())?;
            let e = scalar_from_hex(inp["exp"].as_str().unwrap_or(""))?;
            Ok(json!(hex(&base.mul(&e).map_err(|e| e.to_string())?.to_bytes().map_err(|e| e.to_string())?)))
        }
        _ => Err(format!("unknown exec op {}", op)),
    })();
    match r {
        Ok(out) => json!({"id": v["id"], "out": out}),
        Err(e) => json!({"id": v["id"], "error": e}),
    }
}

pub fn run() {
    let stdin = std::io::stdin();
    for line in stdin.lock().lines() {
        let line = match line {
            Ok(l) => l,
            Err(_) => break,
        };
        if line.trim().is_empty() {
            continue;
        }
        match serde_json::from_str::<Value>(&line) {
            Ok(v) => emit(&exec_one(&v)),
            Err(e) => emit(&json!({"id": Value::Null, "error": format!("parse: {}", e)})),
        }
    }
}
