//! credential-definition fixtures (key generation is expensive) and protocol helpers
use crate::util::*;
use anoncreds_clsignatures::*;
use serde_json::{json, Value};
use std::collections::BTreeMap;
use std::path::PathBuf;

pub struct CredDef {
    pub attrs: Vec<String>,
    pub non_attrs: Vec<String>,
    pub schema: CredentialSchema,
    pub non_schema: NonCredentialSchema,
    pub pk: CredentialPublicKey,
    pub sk: CredentialPrivateKey,
    pub kcp: CredentialKeyCorrectnessProof,
}

pub fn schema_of(attrs: &[String]) -> CredentialSchema {
    let mut b = Issuer::new_credential_schema_builder().unwrap();
    for a in attrs {
        b.add_attr(a).unwrap();
    }
    b.finalize().unwrap()
}

pub fn non_schema_of(attrs: &[String]) -> NonCredentialSchema {
    let mut b = Issuer::new_non_credential_schema_builder().unwrap();
    for a in attrs {
        b.add_attr(a).unwrap();
    }
    b.finalize().unwrap()
}

impl CredDef {
    pub fn generate(attrs: &[String], non_attrs: &[String], revoc: bool) -> Result<CredDef, String> {
        let schema = schema_of(attrs);
        let non_schema = non_schema_of(non_attrs);
        let (pk, sk, kcp) = Issuer::new_credential_def(&schema, &non_schema, revoc).map_err(|e| e.to_string())?;
        Ok(CredDef { attrs: attrs.to_vec(), non_attrs: non_attrs.to_vec(), schema, non_schema, pk, sk, kcp })
    }

    pub fn to_json(&self) -> Value {
        json!({"attrs": self.attrs, "non_attrs": self.non_attrs, "pk": jv(&self.pk), "sk": jv(&self.sk), "kcp": jv(&self.kcp)})
    }

    pub fn from_json(v: &Value) -> Result<CredDef, String> {
        let attrs: Vec<String> = from_jv(&v["attrs"])?;
        let non_attrs: Vec<String> = from_jv(&v["non_attrs"])?;
        Ok(CredDef {
            schema: schema_of(&attrs),
            non_schema: non_schema_of(&non_attrs),
            pk: from_jv(&v["pk"])?,
            sk: from_jv(&v["sk"])?,
            kcp: from_jv(&v["kcp"])?,
            attrs,
            non_attrs,
        })
    }
}

pub fn fixtures_dir() -> PathBuf {
    if let Ok(d) = std::env::var("VERIF_FIXTURES") {
        return PathBuf::from(d);
    }
    PathBuf::from(env!("CARGO_MANIFEST_DIR")).join("..").join("corpus").join("fixtures")
}

/// the fixed fixture set: name -> (schema attrs, non-schema attrs, revocation)
pub fn fixture_specs() -> Vec<(&'static str, Vec<String>, Vec<String>, bool)> {
    let s = |xs: &[&str]| xs.iter().map(|x| x.to_string()).collect::<Vec<_>>();
    vec![
        ("gvt_rev", s(&["name", "sex", "age", "height"]), s(&["master_secret"]), true),
        ("xyz_rev", s(&["status", "period", "age"]), s(&["master_secret"]), true),
        ("pqr_norev", s(&["name", "score", "level", "age", "balance", "zip"]), s(&["master_secret", "policy"]), false),
        // attribute names that contain one another (age / page / percentage / language): name handling must be exact
        ("ovl_norev", s(&["language", "age", "page", "percentage"]), s(&["master_secret"]), false),
    ]
}

pub fn load_fixture(name: &str) -> Result<CredDef, String> {
    let p = fixtures_dir().join(format!("{}.json", name));
    let txt = std::fs::read_to_string(&p).map_err(|e| format!("{}: {}", p.display(), e))?;
    let v: Value = serde_json::from_str(&txt).map_err(|e| e.to_string())?;
    CredDef::from_json(&v)
}

pub fn make_fixtures(force: bool) -> Result<(), String> {
    let dir = fixtures_dir();
    std::fs::create_dir_all(&dir).map_err(|e| e.to_string())?;
    for (name, attrs, non_attrs, revoc) in fixture_specs() {
        let p = dir.join(format!("{}.json", name));
        if p.exists() && !force {
            continue;
        }
        let cd = CredDef::generate(&attrs, &non_attrs, revoc)?;
        std::fs::write(&p, serde_json::to_string(&cd.to_json()).unwrap()).map_err(|e| e.to_string())?;
        eprintln!("fixture {} written", p.display());
    }
    Ok(())
}

/// One issued credential held by a prover.
pub struct Credential {
    pub sig: CredentialSignature,
    pub values: CredentialValues,
    pub witness: Option<Witness>,
    pub delta: Option<RevocationRegistryDelta>,
    pub rev_idx: Option<u32>,
}

pub fn values_of(known: &BTreeMap<String, String>, hidden: &BTreeMap<String, String>) -> Result<CredentialValues, String> {
    let mut b = Issuer::new_credential_values_builder().unwrap();
    for (k, v) in known {
        b.add_dec_known(k, v).map_err(|e| e.to_string())?;
    }
    for (k, v) in hidden {
        b.add_dec_hidden(k, v).map_err(|e| e.to_string())?;
    }
    b.finalize().map_err(|e| e.to_string())
}

/// Registry context of one revocation registry.
pub struct RegCtx {
    pub l: u32,
    pub by_default: bool,
    pub key_pub: RevocationKeyPublic,
    pub key_priv: RevocationKeyPrivate,
    pub reg: RevocationRegistry,
    pub tails: SimpleTailsAccessor,
}

impl RegCtx {
    pub fn new(cd: &CredDef, l: u32, by_default: bool) -> Result<RegCtx, String> {
        let (key_pub, key_priv, reg, mut gen) =
            Issuer::new_revocation_registry_def(&cd.pk, l, by_default).map_err(|e| e.to_string())?;
        let tails = SimpleTailsAccessor::new(&mut gen).map_err(|e| e.to_string())?;
        Ok(RegCtx { l, by_default, key_pub, key_priv, reg, tails })
    }
    pub fn gamma_hex(&self) -> String {
        jv(&self.key_priv)["gamma"].as_str().unwrap_or("").to_string()
    }
}

/// Full honest issuance: blind, sign (optionally with revocation), process.
/// `process_rev`: pass registry + witness to `process_credential_signature`.
pub fn issue(
    cd: &CredDef,
    known: &BTreeMap<String, String>,
    hidden: &BTreeMap<String, String>,
    prover_id: &str,
    rev: Option<(&mut RegCtx, u32)>,
) -> Result<Credential, String> {
    let e = |x: Error| x.to_string();
    let known_vals = values_of(known, &BTreeMap::new())?;
    let hidden_vals = values_of(&BTreeMap::new(), hidden)?;
    let nonce = new_nonce().map_err(e)?;
    let (blinded, factors, bproof) =
        Prover::blind_credential_secrets(&cd.pk, &cd.kcp, &hidden_vals, &nonce).map_err(e)?;
    let inonce = new_nonce().map_err(e)?;
    let all = known_vals.merge(&hidden_vals).map_err(e)?;
    match rev {
        None => {
            let (mut sig, sproof) =
                Issuer::sign_credential(prover_id, &blinded, &bproof, &nonce, &inonce, &known_vals, &cd.pk, &cd.sk).map_err(e)?;
            Prover::process_credential_signature(&mut sig, &all, &sproof, &factors, &cd.pk, &inonce, None, None, None).map_err(e)?;
            Ok(Credential { sig, values: all, witness: None, delta: None, rev_idx: None })
        }
        Some((rc, idx)) => {
            let (mut sig, sproof, witness, delta) = Issuer::sign_credential_with_revoc(
                prover_id, &blinded, &bproof, &nonce, &inonce, &known_vals, &cd.pk, &cd.sk, idx, rc.l, rc.by_default,
                &mut rc.reg, &rc.key_priv,
            )
            .map_err(e)?;
            Prover::process_credential_signature(
                &mut sig, &all, &sproof, &factors, &cd.pk, &inonce, Some(&rc.key_pub), Some(&rc.reg), Some(&witness),
            )
            .map_err(e)?;
            Ok(Credential { sig, values: all, witness: Some(witness), delta, rev_idx: Some(idx) })
        }
    }
}
