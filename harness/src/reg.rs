//! registry family: histories (C08), witnesses (C09), delta merge (C13), tails (C14)
use crate::fixtures::*;
use crate::rng::Rng;
use crate::util::*;
use anoncreds_clsignatures::verif as vf;
use anoncreds_clsignatures::*;
use serde_json::{json, Value};
use std::collections::{BTreeMap, BTreeSet, HashSet};

pub fn mode_str() -> &'static str {
    if cfg!(debug_assertions) {
        "checked"
    } else {
        "wrapping"
    }
}

/// canonical form of a G2 point given in the library's text form: hex of the 128-byte affine encoding
pub fn g2_canon(s: &str) -> String {
    match vf::PointG2::from_string_inf(s) {
        Ok(p) => g2p_canon(&p),
        Err(_) => format!("undecodable:{}", s),
    }
}

/// the identity has several byte encodings in amcl (unreduced coordinates): name it
pub fn g2p_canon(p: &vf::PointG2) -> String {
    if p.is_inf().unwrap_or(false) {
        "inf".into()
    } else {
        hex(&p.to_bytes().unwrap_or_default())
    }
}

fn acc_canon(a: &Accumulator) -> String {
    g2p_canon(a.as_ref())
}

fn wit_canon(w: &Witness) -> String {
    match jv(w)["omega"].as_str() {
        Some(s) => g2_canon(s),
        None => "none".into(),
    }
}

pub fn delta_json(d: &RevocationRegistryDelta) -> Value {
    let v = jv(d);
    let set = |k: &str| -> Vec<u64> {
        let mut xs: Vec<u64> = v.get(k).and_then(|a| a.as_array()).map(|a| a.iter().filter_map(|x| x.as_u64()).collect()).unwrap_or_default();
        xs.sort();
        xs
    };
    json!({
        "prev": v.get("prevAccum").and_then(|x| x.as_str()).map(g2_canon),
        "acc": v.get("accum").and_then(|x| x.as_str()).map(g2_canon),
        "issued": set("issued"),
        "revoked": set("revoked"),
    })
}

pub fn delta_from(prev: Option<&str>, acc: &str, issued: &[u32], revoked: &[u32]) -> Result<RevocationRegistryDelta, String> {
    let mut m = serde_json::Map::new();
    if let Some(p) = prev {
        m.insert("prevAccum".into(), json!(p));
    }
    m.insert("accum".into(), json!(acc));
    m.insert("issued".into(), json!(issued));
    m.insert("revoked".into(), json!(revoked));
    from_jv(&Value::Object(m))
}

struct Blinded {
    blinded: BlindedCredentialSecrets,
    bproof: BlindedCredentialSecretsCorrectnessProof,
    factors: CredentialSecretsBlindingFactors,
    nonce: Nonce,
    known: CredentialValues,
    all: CredentialValues,
}

fn blinded_for(cd: &CredDef, rng: &mut Rng) -> Result<Blinded, String> {
    let e = |x: Error| x.to_string();
    let mut known = BTreeMap::new();
    for a in &cd.attrs {
        known.insert(a.clone(), format!("{}", rng.range(0, 1000)));
    }
    let mut hidden = BTreeMap::new();
    for a in &cd.non_attrs {
        hidden.insert(a.clone(), format!("{}", rng.next()));
    }
    let known_vals = values_of(&known, &BTreeMap::new())?;
    let hidden_vals = values_of(&BTreeMap::new(), &hidden)?;
    let nonce = new_nonce().map_err(e)?;
    let (blinded, factors, bproof) = Prover::blind_credential_secrets(&cd.pk, &cd.kcp, &hidden_vals, &nonce).map_err(e)?;
    let all = known_vals.merge(&hidden_vals).map_err(e)?;
    Ok(Blinded { blinded, bproof, factors, nonce, known: known_vals, all })
}

struct Holder {
    idx: u32,
    sig: CredentialSignature,
    sproof: SignatureCorrectnessProof,
    inonce: Nonce,
    issuer_witness: Witness,
    upd: Witness,       // issuance witness updated step by step
    upd_ok: bool,
    issued_at: usize,   // step number
}

const WILD: [u32; 6] = [0, 0, 1 << 31, u32::MAX, u32::MAX - 1, 1 << 30];

fn wild_index(rng: &mut Rng, l: u32) -> u32 {
    match rng.below(5) {
        0 => 0,
        1 => l + 1,
        2 => l + 2,
        3 => *rng.pick(&WILD),
        _ => l + 1 + rng.below(5) as u32,
    }
}

pub struct HistOpts {
    pub max_l: u32,
    pub max_depth: usize,
    pub with_holders: bool,
    pub illformed_pct: u64,
    pub wild_pct: u64,
}

/// Generate and run one registry history on the real `Issuer` API.
/// registry context reused across many scripted histories (exhaustive tree)
pub struct Shared {
    rc: RegCtx,
    bl: Blinded,
    init: RevocationRegistry,
}

pub fn run_history(cd: &CredDef, rng: &mut Rng, id: &str, o: &HistOpts, forced: Option<(u32, bool, Vec<Value>)>) -> Result<Vec<Value>, String> {
    run_history_shared(cd, rng, id, o, forced, None)
}

pub fn run_history_shared(cd: &CredDef, rng: &mut Rng, id: &str, o: &HistOpts, forced: Option<(u32, bool, Vec<Value>)>, shared: Option<&mut Shared>) -> Result<Vec<Value>, String> {
    let (l, by_default, script) = match forced {
        Some((l, bd, ops)) => (l, bd, Some(ops)),
        None => (1 + rng.below(o.max_l as u64) as u32, rng.chance(1, 2), None),
    };
    let depth = match &script {
        Some(s) => s.len(),
        None => 1 + rng.below(o.max_depth as u64) as usize,
    };
    let mut own: Option<Shared> = None;
    let sh: &mut Shared = match shared {
        Some(s) => {
            s.rc.reg = s.init.clone();
            s
        }
        None => {
            let rc = RegCtx::new(cd, l, by_default)?;
            let init = rc.reg.clone();
            own = Some(Shared { rc, bl: blinded_for(cd, rng)?, init });
            own.as_mut().unwrap()
        }
    };
    let rc = &mut sh.rc;
    let bl = &sh.bl;
    let g_dash_s = jv(&cd.pk)["r_key"]["g_dash"].as_str().unwrap_or("").to_string();
    let g_s = jv(&cd.pk)["r_key"]["g"].as_str().unwrap_or("").to_string();
    let g_dash = vf::PointG2::from_string(&g_dash_s).map_err(|e| e.to_string())?;
    let g = vf::PointG1::from_string(&g_s).map_err(|e| e.to_string())?;
    let gamma = vf::GroupOrderElement::from_string(&rc.gamma_hex()).map_err(|e| e.to_string())?;
    let z: vf::Pair = from_jv(&jv(&rc.key_pub)["z"])?;

    let mut valid: BTreeSet<u32> = if by_default { (1..=l).collect() } else { BTreeSet::new() };
    let mut ever_issued: BTreeSet<u32> = BTreeSet::new();   // by-default: indices handed to a holder
    let mut wf_so_far = true;
    let mut ops_json: Vec<Value> = vec![];
    let mut steps: Vec<Value> = vec![];
    let mut oracles: Vec<Value> = vec![];
    let mut holders: Vec<Holder> = vec![];
    let mut deltas: Vec<(usize, RevocationRegistryDelta)> = vec![];
    let mut cum: Option<RevocationRegistryDelta> = None;
    let mut extra_cases: Vec<Value> = vec![];
    let init = acc_canon(&rc.reg.accum);
    let mut kinds: BTreeMap<String, u64> = BTreeMap::new();

    for step in 0..depth {
        // ---- choose an operation
        let op: Value = if let Some(s) = &script {
            s[step].clone()
        } else {
            let roll = rng.below(100);
            let unissued: Vec<u32> = if by_default {
                (1..=l).filter(|i| !ever_issued.contains(i) && valid.contains(i)).collect()
            } else {
                (1..=l).filter(|i| !valid.contains(i) && !ever_issued.contains(i)).collect()
            };
            let revoked_now: Vec<u32> = (1..=l).filter(|i| !valid.contains(i) && (by_default || ever_issued.contains(i))).collect();
            let valid_now: Vec<u32> = valid.iter().copied().collect();
            if roll < o.wild_pct {
                let i = wild_index(rng, l);
                match rng.below(4) {
                    0 => json!({"op":"issue","i":i}),
                    1 => json!({"op":"revoke","i":i}),
                    2 => json!({"op":"unrevoke","i":i}),
                    _ => {
                        // a batch with one index out of range, alone or next to a well-formed
                        // rest (the whole batch must be refused and nothing applied)
                        let addable: Vec<u32> = if by_default { revoked_now.clone() } else { (1..=l).filter(|i| !valid.contains(i)).collect() };
                        let mut iss: BTreeSet<u32> = BTreeSet::new();
                        let mut rev: BTreeSet<u32> = BTreeSet::new();
                        if rng.chance(2, 3) {
                            for _ in 0..1 + rng.below(2) { if !addable.is_empty() { iss.insert(*rng.pick(&addable)); } }
                            for _ in 0..rng.below(3) { if !valid_now.is_empty() { rev.insert(*rng.pick(&valid_now)); } }
                        }
                        if rng.chance(1, 2) { iss.insert(i); } else { rev.insert(i); }
                        json!({"op":"update","issued": iss.into_iter().collect::<Vec<_>>(), "revoked": rev.into_iter().collect::<Vec<_>>()})
                    }
                }
            } else if roll < o.wild_pct + o.illformed_pct {
                let i = 1 + rng.below(l as u64) as u32;
                match rng.below(3) {
                    0 => json!({"op":"revoke","i":i}),
                    1 => json!({"op":"unrevoke","i":i}),
                    _ => json!({"op":"update","issued":[i],"revoked":[]}),
                }
            } else {
                let k = rng.below(10);
                if k < 4 && !unissued.is_empty() {
                    json!({"op":"issue","i": *rng.pick(&unissued)})
                } else if k < 6 && !valid_now.is_empty() {
                    json!({"op":"revoke","i": *rng.pick(&valid_now)})
                } else if k < 8 && !revoked_now.is_empty() {
                    json!({"op":"unrevoke","i": *rng.pick(&revoked_now)})
                } else {
                    // batch: a few un-revocations / (on demand) fresh issues, and a few revocations
                    let mut iss: BTreeSet<u32> = BTreeSet::new();
                    let mut rev: BTreeSet<u32> = BTreeSet::new();
                    let addable: Vec<u32> = if by_default { revoked_now.clone() } else { (1..=l).filter(|i| !valid.contains(i)).collect() };
                    for _ in 0..rng.below(3) {
                        if !addable.is_empty() { iss.insert(*rng.pick(&addable)); }
                    }
                    for _ in 0..rng.below(3) {
                        if !valid_now.is_empty() { rev.insert(*rng.pick(&valid_now)); }
                    }
                    json!({"op":"update","issued": iss.into_iter().collect::<Vec<_>>(), "revoked": rev.into_iter().collect::<Vec<_>>()})
                }
            }
        };
        let kind = op["op"].as_str().unwrap_or("").to_string();
        *kinds.entry(kind.clone()).or_insert(0) += 1;
        let geti = |k: &str| op[k].as_u64().unwrap_or(0) as u32;
        let getset = |k: &str| -> BTreeSet<u32> { op[k].as_array().map(|a| a.iter().filter_map(|x| x.as_u64()).map(|x| x as u32).collect()).unwrap_or_default() };
        let before = rc.reg.accum;
        let in_range = |i: u32| i >= 1 && i <= l;
        // ---- well-formedness w.r.t. the protocol (tracked by the harness, independent of the library)
        let wf = match kind.as_str() {
            "issue" => in_range(geti("i")) && !ever_issued.contains(&geti("i")) && (if by_default { valid.contains(&geti("i")) } else { !valid.contains(&geti("i")) }),
            "revoke" => in_range(geti("i")) && valid.contains(&geti("i")),
            "unrevoke" => in_range(geti("i")) && !valid.contains(&geti("i")),
            "update" => {
                let (iss, rev) = (getset("issued"), getset("revoked"));
                iss.iter().all(|i| in_range(*i) && !valid.contains(i)) && rev.iter().all(|i| in_range(*i) && valid.contains(i)) && iss.is_disjoint(&rev)
            }
            _ => false,
        };
        let any_out_of_range = match kind.as_str() {
            "update" => getset("issued").iter().chain(getset("revoked").iter()).any(|i| !in_range(*i)),
            _ => !in_range(geti("i")),
        };
        // ---- run it on the real code
        let mut step_json;
        let mut delta_opt: Option<RevocationRegistryDelta> = None;
        match kind.as_str() {
            "issue" => {
                let i = geti("i");
                let inonce = new_nonce().map_err(|e| e.to_string())?;
                let r = guard(|| Issuer::sign_credential_with_revoc(
                    "prover-1", &bl.blinded, &bl.bproof, &bl.nonce, &inonce, &bl.known, &cd.pk, &cd.sk, i, l, by_default, &mut rc.reg, &rc.key_priv));
                step_json = json!({"status": r.tag(), "msg": r.msg()});
                if let Out::Ok((sig, sproof, w, d)) = r {
                    step_json["witness"] = json!(wit_canon(&w));
                    delta_opt = d;
                    if o.with_holders && wf && holders.len() < 4 {
                        holders.push(Holder { idx: i, sig, sproof, inonce, issuer_witness: w.clone(), upd: w, upd_ok: true, issued_at: step });
                    }
                }
            }
            "revoke" => {
                let r = guard(|| Issuer::revoke_credential(&mut rc.reg, l, geti("i"), &cd.pk, &rc.key_priv));
                step_json = json!({"status": r.tag(), "msg": r.msg()});
                delta_opt = r.ok();
            }
            "unrevoke" => {
                let r = guard(|| Issuer::unrevoke_credential(&mut rc.reg, l, geti("i"), &cd.pk, &rc.key_priv));
                step_json = json!({"status": r.tag(), "msg": r.msg()});
                delta_opt = r.ok();
            }
            "update" => {
                let r = guard(|| Issuer::update_revocation_registry(&mut rc.reg, l, getset("issued"), getset("revoked"), &cd.pk, &rc.key_priv));
                step_json = json!({"status": r.tag(), "msg": r.msg()});
                delta_opt = r.ok();
            }
            k => return Err(format!("bad op {}", k)),
        }
        let accepted = step_json["status"] == "ok";
        step_json["accum"] = json!(acc_canon(&rc.reg.accum));
        step_json["delta"] = delta_opt.as_ref().map(delta_json).unwrap_or(Value::Null);
        step_json["wf"] = json!(wf);
        // ---- direct oracles (independent of the model)
        if !accepted && rc.reg.accum != before {
            oracles.push(json!({"name":"unchanged_on_reject","ok":false,"step":step,"detail":"registry changed by a rejected operation"}));
        }
        if any_out_of_range && accepted {
            oracles.push(json!({"name":"out_of_range_rejected","ok":false,"step":step,
                "detail": format!("operation with an index outside 1..={} was accepted: {}", l, op)}));
        }
        if any_out_of_range && step_json["status"] == "panic" {
            oracles.push(json!({"name":"out_of_range_no_panic","ok":false,"step":step,
                "detail": format!("operation with an index outside 1..={} panicked: {}", l, op)}));
        }
        if wf && !accepted {
            oracles.push(json!({"name":"wellformed_accepted","ok":false,"step":step,"detail":format!("well-formed op refused: {} ({})", op, step_json["msg"])}));
        }
        if accepted {
            if !wf { wf_so_far = false; }
            match kind.as_str() {
                "issue" => { valid.insert(geti("i")); ever_issued.insert(geti("i")); }
                "revoke" => { valid.remove(&geti("i")); }
                "unrevoke" => { valid.insert(geti("i")); }
                _ => { for i in getset("issued") { valid.insert(i); } for i in getset("revoked") { valid.remove(&i); } }
            }
            if let Some(d) = &delta_opt {
                // delta records prev / new / exactly the changed indices
                let dj = delta_json(d);
                let expect_iss: Vec<u64> = match kind.as_str() { "issue" | "unrevoke" => vec![geti("i") as u64], "update" => getset("issued").iter().map(|x| *x as u64).collect(), _ => vec![] };
                let expect_rev: Vec<u64> = match kind.as_str() { "revoke" => vec![geti("i") as u64], "update" => getset("revoked").iter().map(|x| *x as u64).collect(), _ => vec![] };
                let okd = dj["prev"] == json!(acc_canon(&before)) && dj["acc"] == json!(acc_canon(&rc.reg.accum))
                    && dj["issued"] == json!(expect_iss) && dj["revoked"] == json!(expect_rev);
                if !okd {
                    oracles.push(json!({"name":"delta_records","ok":false,"step":step,"detail":format!("delta {} does not record prev/new/changed indices of {}", dj, op)}));
                }
                // holders update their witnesses step by step
                for h in holders.iter_mut() {
                    if h.issued_at < step && h.upd_ok {
                        let r = guard(|| h.upd.update(h.idx, l, d, &rc.tails));
                        if !r.is_ok() { h.upd_ok = false; }
                    }
                }
                match cum.as_mut() {
                    None => cum = Some(d.clone()),
                    Some(c) => {
                        let r = guard(|| c.merge(d));
                        if !r.is_ok() {
                            oracles.push(json!({"name":"consecutive_merge","ok":false,"step":step,"detail":format!("merge of consecutive deltas refused: {}", r.msg())}));
                        }
                    }
                }
                deltas.push((step, d.clone()));
            }
            // defining sum with the pairing library directly
            if wf_so_far {
                let mut sum = vf::PointG2::new_inf().unwrap();
                for j in valid.iter() {
                    let t = g_dash.mul(&vf::tail_index_pow(l + 1 - *j, &gamma).unwrap()).unwrap();
                    sum = sum.add(&t).unwrap();
                }
                let ok = g2p_canon(&sum) == acc_canon(&rc.reg.accum);
                if !ok {
                    oracles.push(json!({"name":"defining_sum","ok":false,"step":step,"detail":format!("accumulator differs from the sum over valid set {:?} (L={})", valid, l)}));
                }
                step_json["sum_checked"] = json!(true);
            }
        }
        // ---- witnesses of every holder at this state
        let mut hj = serde_json::Map::new();
        if o.with_holders {
            for h in holders.iter() {
                let cumd = cum.clone().unwrap_or_else(|| RevocationRegistryDelta::from(&rc.reg));
                let wn = guard(|| Witness::new(h.idx, l, by_default, &cumd, &rc.tails));
                let new_c = match &wn { Out::Ok(w) => wit_canon(w), o => o.tag().to_string() };
                let upd_c = if h.upd_ok { wit_canon(&h.upd) } else { "err".into() };
                // from_parts derivation with the harness' own bookkeeping
                let (iss_set, rev_set): (HashSet<u32>, HashSet<u32>) = if by_default {
                    (HashSet::new(), (1..=l).filter(|i| !valid.contains(i)).collect())
                } else {
                    (valid.iter().copied().collect(), HashSet::new())
                };
                let parts = RevocationRegistryDelta::from_parts(None, &rc.reg, &iss_set, &rev_set);
                let wp = guard(|| Witness::new(h.idx, l, by_default, &parts, &rc.tails));
                let parts_c = match &wp { Out::Ok(w) => wit_canon(w), o => o.tag().to_string() };
                // public accumulator check e(g_i, acc) / e(g, omega) == z
                let gi = g.mul(&vf::tail_index_pow(h.idx, &gamma).unwrap()).unwrap();
                let check = |w: &Witness| -> bool {
                    let om: vf::PointG2Inf = from_jv(&jv(w)["omega"]).unwrap();
                    let zc = vf::Pair::pair2(&gi, rc.reg.accum.as_ref(), &g.neg().unwrap(), &om.0).unwrap();
                    zc == z
                };
                let is_valid = valid.contains(&h.idx);
                let mut pair_upd = Value::Null;
                if wf_so_far {
                    if h.upd_ok {
                        let c = check(&h.upd);
                        pair_upd = json!(c);
                        if c != is_valid {
                            oracles.push(json!({"name":"witness_check_iff_valid","ok":false,"step":step,
                                "detail":format!("updated witness of index {} passes the accumulator check = {}, but valid = {}", h.idx, c, is_valid)}));
                        }
                    }
                    if let Out::Ok(w) = &wn {
                        let c = check(w);
                        if c != is_valid {
                            oracles.push(json!({"name":"witness_check_iff_valid","ok":false,"step":step,
                                "detail":format!("from-scratch witness of index {} passes the accumulator check = {}, but valid = {}", h.idx, c, is_valid)}));
                        }
                    }
                    if new_c != upd_c || new_c != parts_c {
                        oracles.push(json!({"name":"three_derivations_agree","ok":false,"step":step,
                            "detail":format!("index {}: Witness::new(merged)={} update-chain={} Witness::new(from_parts)={}", h.idx, &new_c[..16.min(new_c.len())], &upd_c[..16.min(upd_c.len())], &parts_c[..16.min(parts_c.len())])}));
                    }
                    // holder-side processing succeeds exactly for valid indices with the current witness
                    if h.upd_ok && h.issued_at == step {
                        let mut sig = h.sig.try_clone().unwrap();
                        let r = guard(|| Prover::process_credential_signature(&mut sig, &bl.all, &h.sproof, &bl.factors, &cd.pk, &h.inonce,
                                    Some(&rc.key_pub), Some(&rc.reg), Some(&h.issuer_witness)));
                        if r.is_ok() != is_valid {
                            oracles.push(json!({"name":"process_accepts_iff_valid","ok":false,"step":step,
                                "detail":format!("process_credential_signature for index {} -> {} ({}), valid = {}", h.idx, r.tag(), r.msg(), is_valid)}));
                        }
                    }
                }
                hj.insert(h.idx.to_string(), json!({"new": new_c, "upd": upd_c, "parts": parts_c, "valid": is_valid, "pair_upd": pair_upd}));
            }
        }
        step_json["holders"] = Value::Object(hj);
        ops_json.push(op);
        steps.push(step_json);
    }
    // ---- path independence: registry built directly for the final valid set
    if wf_so_far {
        let r = guard(|| RevocationRegistry::for_issued(&cd.pk, &rc.key_priv, l, &valid));
        match r {
            Out::Ok(reg2) => {
                if reg2.accum != rc.reg.accum {
                    oracles.push(json!({"name":"for_issued_agrees","ok":false,"detail":format!("for_issued({:?}) differs from the registry reached through the history (L={})", valid, l)}));
                }
            }
            o => oracles.push(json!({"name":"for_issued_agrees","ok":false,"detail":format!("for_issued failed: {} {}", o.tag(), o.msg())})),
        }
        extra_cases.push(json!({"id": format!("{}/for_issued", id), "op":"for_issued",
            "in": {"L": l, "gamma": rc.gamma_hex(), "mode": mode_str(), "issued": valid.iter().collect::<Vec<_>>()},
            "impl": {"status":"ok", "g_dash": hex(&g_dash.to_bytes().unwrap()), "accum": acc_canon(&rc.reg.accum)}}));
    }
    // ---- merge cases from the recorded deltas (C13)
    let n = deltas.len();
    let mut merge_cases = 0;
    for a in 0..n {
        for b in 0..n {
            if a == b { continue; }
            let consecutive = b == a + 1;
            if !consecutive && !rng.chance(6, (n * n) as u64) { continue; }
            let (d1, d2) = (&deltas[a].1, &deltas[b].1);
            let mut m = d1.clone();
            let r = guard(|| m.merge(d2));
            let mut implj = json!({"status": r.tag(), "msg": r.msg(), "result": delta_json(&m), "target_before": delta_json(d1), "consecutive": consecutive});
            if !r.is_ok() && delta_json(&m) != delta_json(d1) {
                oracles.push(json!({"name":"refused_merge_leaves_target","ok":false,"detail":format!("refused merge changed its target: {} -> {}", delta_json(d1), delta_json(&m))}));
            }
            if consecutive && wf_so_far {
                if !r.is_ok() {
                    oracles.push(json!({"name":"consecutive_merge","ok":false,"detail":"merge of two consecutive deltas refused"}));
                }
                // witness equivalence for every index
                let mut eq_all = true;
                for i in 1..=l {
                    let base = Witness::new(i, l, by_default, &RevocationRegistryDelta::from(&rc.reg), &rc.tails);
                    if let Ok(w0) = base {
                        let mut w1 = w0.clone();
                        let mut w2 = w0.clone();
                        let r1 = guard(|| w1.update(i, l, &m, &rc.tails));
                        let r2 = guard(|| { w2.update(i, l, d1, &rc.tails)?; w2.update(i, l, d2, &rc.tails) });
                        if r1.tag() != r2.tag() || wit_canon(&w1) != wit_canon(&w2) {
                            eq_all = false;
                            oracles.push(json!({"name":"merge_update_equiv","ok":false,
                                "detail":format!("index {}: update(merge(d1,d2)) != update(d1);update(d2); d1={} d2={}", i, delta_json(d1), delta_json(d2))}));
                            break;
                        }
                    }
                }
                implj["witness_equiv"] = json!(eq_all);
            }
            if !consecutive && r.is_ok() && delta_json(d1)["acc"] != delta_json(d2)["prev"] {
                oracles.push(json!({"name":"nonconsecutive_refused","ok":false,"detail":format!("merge of non-consecutive deltas accepted: {} then {}", delta_json(d1), delta_json(d2))}));
            }
            extra_cases.push(json!({"id": format!("{}/merge/{}-{}", id, a, b), "op":"merge",
                "in": {"d1": delta_json(d1), "d2": delta_json(d2)}, "impl": implj}));
            merge_cases += 1;
        }
    }
    // ---- merging in a delta that carries no previous accumulator (a registry snapshot, or a
    //      message with the optional field left out) must be refused: nothing shows it follows
    {
        let mut prevless: Vec<RevocationRegistryDelta> = vec![RevocationRegistryDelta::from(&rc.reg)];
        if n >= 1 {
            let k = rng.below(n as u64) as usize;
            let mut v = jv(&deltas[k].1);
            if let Some(o) = v.as_object_mut() { o.remove("prevAccum"); }
            if let Ok(d) = from_jv::<RevocationRegistryDelta>(&v) { prevless.push(d); }
        }
        let mut targets: Vec<RevocationRegistryDelta> = vec![RevocationRegistryDelta::from(&rc.reg)];
        if n >= 1 { targets.push(deltas[n - 1].1.clone()); targets.push(deltas[rng.below(n as u64) as usize].1.clone()); }
        for (ti, d1) in targets.iter().enumerate() {
            for (pi, d2) in prevless.iter().enumerate() {
                let mut m = d1.clone();
                let r = guard(|| m.merge(d2));
                let implj = json!({"status": r.tag(), "msg": r.msg(), "result": delta_json(&m), "target_before": delta_json(d1), "consecutive": false});
                if !r.is_ok() && delta_json(&m) != delta_json(d1) {
                    oracles.push(json!({"name":"refused_merge_leaves_target","ok":false,"detail":format!("refused merge changed its target: {} -> {}", delta_json(d1), delta_json(&m))}));
                }
                if r.is_ok() {
                    oracles.push(json!({"name":"nonconsecutive_refused","ok":false,"detail":format!("merge of a delta without previous accumulator accepted: {} then {}", delta_json(d1), delta_json(d2))}));
                }
                extra_cases.push(json!({"id": format!("{}/merge/noprev-{}-{}", id, ti, pi), "op":"merge",
                    "in": {"d1": delta_json(d1), "d2": delta_json(d2)}, "impl": implj}));
                merge_cases += 1;
            }
        }
    }
    // chain merge == cumulative
    if n >= 2 && wf_so_far {
        let mut m = deltas[0].1.clone();
        let mut okc = true;
        for k in 1..n { if m.merge(&deltas[k].1).is_err() { okc = false; } }
        if okc {
            let dj = delta_json(&m);
            if dj["prev"] != delta_json(&deltas[0].1)["prev"] || dj["acc"] != delta_json(&deltas[n-1].1)["acc"] {
                oracles.push(json!({"name":"chain_endpoints","ok":false,"detail":"merged chain does not start at the first prev / end at the last accum"}));
            }
        }
    }
    let holders_in: Vec<u32> = holders.iter().map(|h| h.idx).collect();
    let main = json!({"id": id, "op": "reg_history",
        "in": {"L": l, "by_default": by_default, "gamma": rc.gamma_hex(), "mode": mode_str(), "ops": ops_json, "holders": holders_in},
        "impl": {"g_dash": hex(&g_dash.to_bytes().unwrap()), "init": init, "steps": steps, "oracles": oracles, "wf": wf_so_far},
        "class": {"L": l, "by_default": by_default, "depth": depth, "kinds": kinds, "merge_cases": merge_cases, "holders": holders.len()}});
    let mut out = vec![main];
    out.extend(extra_cases);
    Ok(out)
}

/// exhaustive tree of histories for small L (thorough tier): every sequence of single-index
/// operations of the given depth over indices 0..=L+1
pub fn enumerate_scripts(l: u32, depth: usize) -> Vec<Vec<Value>> {
    let mut alphabet: Vec<Value> = vec![];
    for i in 0..=(l + 1) {
        alphabet.push(json!({"op":"issue","i":i}));
        alphabet.push(json!({"op":"revoke","i":i}));
        alphabet.push(json!({"op":"unrevoke","i":i}));
    }
    let mut res: Vec<Vec<Value>> = vec![vec![]];
    for _ in 0..depth {
        let mut next = vec![];
        for s in &res {
            for a in &alphabet {
                let mut t = s.clone();
                t.push(a.clone());
                next.push(t);
            }
        }
        res = next;
    }
    res
}

/// C14: drain a tails generator, recording count() before every call
pub fn run_tails(cd: &CredDef, l: u32, id: &str) -> Result<Value, String> {
    let (_kp, key_priv, _reg, mut gen) = Issuer::new_revocation_registry_def(&cd.pk, l, false).map_err(|e| e.to_string())?;
    let gamma_hex = jv(&key_priv)["gamma"].as_str().unwrap_or("").to_string();
    let g_dash_s = jv(&cd.pk)["r_key"]["g_dash"].as_str().unwrap_or("").to_string();
    let g_dash = vf::PointG2::from_string(&g_dash_s).map_err(|e| e.to_string())?;
    let calls = 2 * l as usize + 3;
    let mut outs = vec![];
    let mut status = "ok".to_string();
    for _ in 0..calls {
        let c = gen.count();
        match guard(|| gen.try_next()) {
            Out::Ok(Some(t)) => outs.push(json!({"count": c, "tail": g2p_canon(t.as_ref())})),
            Out::Ok(None) => outs.push(json!({"count": c, "tail": Value::Null})),
            o => { status = o.tag().to_string(); break; }
        }
    }
    // a generator re-created for the same keys yields the same sequence
    let mut oracles = vec![];
    let mut gen2 = Issuer::revocation_tails_generator(&cd.pk, &key_priv, l).map_err(|e| e.to_string())?;
    let mut same = true;
    for o in outs.iter() {
        let t2 = gen2.try_next().map_err(|e| e.to_string())?;
        let t2c = t2.map(|t| g2p_canon(t.as_ref()));
        if json!(t2c) != o["tail"] { same = false; }
    }
    if !same {
        oracles.push(json!({"name":"generator_deterministic","ok":false,"detail":format!("re-created generator differs (L={})", l)}));
    }
    // generator state survives a serde round trip
    let mut gen3 = Issuer::revocation_tails_generator(&cd.pk, &key_priv, l).map_err(|e| e.to_string())?;
    let _ = gen3.try_next();
    let gen3v = jv(&gen3);
    if let Ok(mut gen4) = from_jv::<RevocationTailsGenerator>(&gen3v) {
        let a = gen3.try_next().ok().flatten().map(|t| g2p_canon(t.as_ref()));
        let b = gen4.try_next().ok().flatten().map(|t| g2p_canon(t.as_ref()));
        if a != b {
            oracles.push(json!({"name":"generator_serde_state","ok":false,"detail":"deserialized generator continues differently"}));
        }
    }
    // the secret tail g'^(gamma^(L+1)) never appears
    let gamma = vf::GroupOrderElement::from_string(&gamma_hex).map_err(|e| e.to_string())?;
    let secret = g2p_canon(&g_dash.mul(&vf::tail_index_pow(l + 1, &gamma).unwrap()).unwrap());
    // a generator stored after k tails and loaded again (JSON and MessagePack, named and
    // positional) continues with exactly the tails the uninterrupted one produced, to the end,
    // and still withholds the secret one (sixth seeding round: state dropped on the round trip)
    if status == "ok" {
        let full: Vec<Value> = outs.iter().map(|o| o["tail"].clone()).collect();
        let mut cuts: Vec<usize> = vec![0, 1, 2, l as usize - 1, l as usize, l as usize + 1, 2 * l as usize, 2 * l as usize + 1];
        cuts.sort(); cuts.dedup();
        for &k in cuts.iter().filter(|&&k| k < full.len()) {
            for form in ["json", "msgpack_named", "msgpack"] {
                let mut g = Issuer::revocation_tails_generator(&cd.pk, &key_priv, l).map_err(|e| e.to_string())?;
                for _ in 0..k { let _ = g.try_next(); }
                let loaded: Option<RevocationTailsGenerator> = match form {
                    "json" => from_jv::<RevocationTailsGenerator>(&jv(&g)).ok(),
                    "msgpack_named" => rmp_serde::to_vec_named(&g).ok().and_then(|b| rmp_serde::from_slice(&b).ok()),
                    _ => rmp_serde::to_vec(&g).ok().and_then(|b| rmp_serde::from_slice(&b).ok()),
                };
                let mut g2 = match loaded {
                    Some(x) => x,
                    None => {
                        oracles.push(json!({"name":"generator_serde_state","ok":false,"detail":format!("generator stored after {} tails does not load again ({}, L={})", k, form, l)}));
                        continue;
                    }
                };
                let mut bad: Option<String> = None;
                for pos in k..full.len() {
                    let t = match guard(|| g2.try_next()) {
                        Out::Ok(t) => json!(t.map(|t| g2p_canon(t.as_ref()))),
                        o => json!(format!("<{}>", o.tag())),
                    };
                    if t == json!(secret) {
                        oracles.push(json!({"name":"secret_never_emitted","ok":false,"detail":format!("generator for L={} stored after {} tails and loaded again ({}) emits g'^(gamma^(L+1)) at position {}", l, k, form, pos)}));
                    }
                    if t != full[pos] && bad.is_none() { bad = Some(format!("position {}", pos)); }
                }
                if let Some(b) = bad {
                    oracles.push(json!({"name":"generator_serde_state","ok":false,"detail":format!("generator for L={} stored after {} tails and loaded again ({}) continues differently from {}", l, k, form, b)}));
                }
            }
        }
    }
    for (k, o) in outs.iter().enumerate() {
        if o["tail"] == json!(secret) {
            oracles.push(json!({"name":"secret_never_emitted","ok":false,"detail":format!("position {} of the generator for L={} is g'^(gamma^(L+1))", k, l)}));
        }
    }
    Ok(json!({"id": id, "op": "tails",
        "in": {"L": l, "gamma": gamma_hex, "mode": mode_str(), "calls": calls},
        "impl": {"status": status, "g_dash": hex(&g_dash.to_bytes().unwrap()), "outs": outs, "oracles": oracles},
        "class": {"L": l}}))
}

/// streams of this module
pub fn gen(stream: &str, thorough: bool, rng: &mut Rng) -> Option<Result<(), String>> {
    match stream {
        "reg" => Some(gen_reg(thorough, rng)),
        "tails" => Some(gen_tails(thorough, rng)),
        _ => None,
    }
}

fn gen_reg(thorough: bool, rng: &mut Rng) -> Result<(), String> {

            let cd = load_fixture("gvt_rev")?;
            // corpus first: boundary histories chosen at design time
            let corpus: Vec<(u32, bool, Vec<Value>)> = vec![
                (2, false, vec![json!({"op":"issue","i":2}), json!({"op":"revoke","i":0})]),
                (2, false, vec![json!({"op":"issue","i":1}), json!({"op":"revoke","i":3}), json!({"op":"revoke","i":4})]),
                (3, true, vec![json!({"op":"revoke","i":4294967295u32}), json!({"op":"unrevoke","i":0}), json!({"op":"update","issued":[0],"revoked":[]})]),
                (3, false, vec![json!({"op":"issue","i":2}), json!({"op":"issue","i":3}), json!({"op":"revoke","i":2}), json!({"op":"unrevoke","i":2}), json!({"op":"update","issued":[1],"revoked":[3]})]),
                (1, true, vec![json!({"op":"issue","i":1}), json!({"op":"revoke","i":1}), json!({"op":"unrevoke","i":1})]),
                (4, true, vec![json!({"op":"issue","i":2}), json!({"op":"update","issued":[],"revoked":[1,2,3]}), json!({"op":"update","issued":[2,3],"revoked":[4]}), json!({"op":"issue","i":4})]),
                // batches with one index out of range next to a well-formed rest: all or nothing
                (3, false, vec![json!({"op":"update","issued":[1,2],"revoked":[0]}), json!({"op":"update","issued":[1,2],"revoked":[4]}), json!({"op":"update","issued":[1,2],"revoked":[]})]),
                (3, true, vec![json!({"op":"revoke","i":1}), json!({"op":"update","issued":[1],"revoked":[4294967295u32]}), json!({"op":"update","issued":[1],"revoked":[2,5]})]),
                (4, false, vec![json!({"op":"issue","i":2}), json!({"op":"update","issued":[1,5],"revoked":[2]}), json!({"op":"update","issued":[0,1],"revoked":[2]}), json!({"op":"update","issued":[1,3],"revoked":[2]})]),
                // capacity 0: no index is valid in either mode, every operation is out of range
                (0, true, vec![json!({"op":"revoke","i":0}), json!({"op":"revoke","i":1}), json!({"op":"update","issued":[1],"revoked":[]})]),
                (0, false, vec![json!({"op":"issue","i":1}), json!({"op":"issue","i":0}), json!({"op":"update","issued":[],"revoked":[1]})]),
            ];
            let opts = HistOpts { max_l: 32, max_depth: 40, with_holders: true, illformed_pct: 4, wild_pct: 10 };
            for (k, (l, bd, ops)) in corpus.into_iter().enumerate() {
                for c in run_history(&cd, rng, &format!("reg/corpus/{}", k), &opts, Some((l, bd, ops)))? {
                    emit(&c);
                }
            }
            let n = if thorough { 300 } else { 40 };
            for k in 0..n {
                for c in run_history(&cd, rng, &format!("reg/{}", k), &opts, None)? {
                    emit(&c);
                }
            }
            if thorough {
                // exhaustive tree L<=3 (indices 0..=L+1, three single-index ops)
                let opts2 = HistOpts { max_l: 3, max_depth: 4, with_holders: false, illformed_pct: 0, wild_pct: 0 };
                let mut k = 0;
                for l in 1..=3u32 {
                    // alphabet 3*(L+2) per step: depth 3 for L<=2 (729 / 1728 scripts per mode), depth 2 for L=3
                    let maxd = if l <= 2 { 3 } else { 2 };
                    for d in 1..=maxd {
                        for bd in [false, true] {
                            let rc = RegCtx::new(&cd, l, bd)?;
                            let init = rc.reg.clone();
                            let mut sh = Shared { rc, bl: blinded_for(&cd, rng)?, init };
                            for script in enumerate_scripts(l, d) {
                                for c in run_history_shared(&cd, rng, &format!("reg/tree/{}", k), &opts2, Some((l, bd, script.clone())), Some(&mut sh))? {
                                    emit(&c);
                                }
                                k += 1;
                            }
                        }
                    }
                }
            }
            Ok(())
}

fn gen_tails(thorough: bool, rng: &mut Rng) -> Result<(), String> {

            let cd = load_fixture("gvt_rev")?;
            let maxl = if thorough { 64 } else { 24 };
            for l in 1..=maxl {
                emit(&run_tails(&cd, l, &format!("tails/{}", l))?);
            }
            let extra = if thorough { 12 } else { 2 };
            for k in 0..extra {
                let l = 65 + rng.below(if thorough { 9936 } else { 400 }) as u32;
                emit(&run_tails(&cd, l, &format!("tails/sampled/{}", k))?);
            }
            Ok(())
}
