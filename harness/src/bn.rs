//! C17 / C18 — the public `anoncreds_clsignatures::bn::BigNumber` API (both back-ends), the
//! `bitwise_or_big_int` helper and the random/prime generators.
//!
//! Streams
//!   bn         one operation per case line: {"in": {"backend","op","args"}, "impl": {"status","val"}}
//!              (edge values crossed per arity + random operands of 1..4096 bits + malformed text)
//!   bn_random  contracts of the random / primality operations over many draws
//!   bn_xchg    artefact exchange between the two builds (files under /verif/work/xchg)
//!
//! The generator is a function of the seed only (never of the back-end or of a result), so
//! that the two builds produce the same case list and can be diffed line by line (C18).
use crate::rng::Rng;
use crate::util::*;
use anoncreds_clsignatures::bn::BigNumber;
use anoncreds_clsignatures::verif as vf;
use anoncreds_clsignatures::Error as ClError;
use serde_json::{json, Value};

pub fn backend() -> &'static str {
    if cfg!(feature = "ossl") {
        "openssl"
    } else {
        "rust"
    }
}

// ------------------------------------------------------------------ argument decoding

fn sarg(a: &[Value], i: usize) -> Result<String, String> {
    a.get(i).and_then(|v| v.as_str()).map(|s| s.to_string()).ok_or_else(|| format!("arg {} is not a string", i))
}

fn uarg(a: &[Value], i: usize) -> Result<u64, String> {
    let v = a.get(i).ok_or_else(|| format!("arg {} missing", i))?;
    if let Some(n) = v.as_u64() {
        return Ok(n);
    }
    v.as_str().and_then(|s| s.parse::<u64>().ok()).ok_or_else(|| format!("arg {} is not an unsigned number", i))
}

fn iarg(a: &[Value], i: usize) -> Result<i64, String> {
    let v = a.get(i).ok_or_else(|| format!("arg {} missing", i))?;
    if let Some(n) = v.as_i64() {
        return Ok(n);
    }
    v.as_str().and_then(|s| s.parse::<i64>().ok()).ok_or_else(|| format!("arg {} is not a number", i))
}

fn barg(a: &[Value], i: usize) -> Result<bool, String> {
    a.get(i).and_then(|v| v.as_bool()).ok_or_else(|| format!("arg {} is not a bool", i))
}

/// operand from its canonical decimal text; the harness refuses operands that do not read back
fn zarg(a: &[Value], i: usize) -> Result<BigNumber, String> {
    let s = sarg(a, i)?;
    let b = match guard(|| BigNumber::from_dec(&s)) {
        Out::Ok(b) => b,
        o => return Err(format!("operand {}: from_dec failed ({} {})", s, o.tag(), o.msg())),
    };
    let back = b.to_dec().map_err(|e| e.to_string())?;
    if back != s {
        return Err(format!("operand {} reads back as {}", s, back));
    }
    Ok(b)
}

fn zval(b: &BigNumber) -> Result<Value, ClError> {
    Ok(json!(b.to_dec()?))
}

// ------------------------------------------------------------------ one operation on the real code

/// runs `op` on the real crate; `Err` = harness problem (bad case line), never a library outcome
fn run_op(op: &str, a: &[Value]) -> Result<Out<Value>, String> {
    Ok(match op {
        // ---- text and bytes
        "from_dec" => {
            let s = sarg(a, 0)?;
            guard(|| zval(&BigNumber::from_dec(&s)?))
        }
        "from_hex" => {
            let s = sarg(a, 0)?;
            guard(|| zval(&BigNumber::from_hex(&s)?))
        }
        "from_bytes" => {
            let b = unhex(&sarg(a, 0)?).ok_or("bad hex")?;
            guard(|| zval(&BigNumber::from_bytes(&b)?))
        }
        "to_dec" => {
            let x = zarg(a, 0)?;
            guard(|| Ok::<_, ClError>(json!(x.to_dec()?)))
        }
        "to_hex" => {
            let x = zarg(a, 0)?;
            guard(|| Ok::<_, ClError>(json!(x.to_hex()?)))
        }
        "to_bytes" => {
            let x = zarg(a, 0)?;
            guard(|| Ok::<_, ClError>(json!(hex(&x.to_bytes()?))))
        }
        "from_u32" => {
            let n = uarg(a, 0)? as usize;
            guard(|| zval(&BigNumber::from_u32(n)?))
        }
        // ---- comparison
        "cmp" => {
            let (x, y) = (zarg(a, 0)?, zarg(a, 1)?);
            guard_inf(|| json!(match x.cmp(&y) {
                std::cmp::Ordering::Less => -1,
                std::cmp::Ordering::Equal => 0,
                std::cmp::Ordering::Greater => 1,
            }))
        }
        "eq" => {
            let (x, y) = (zarg(a, 0)?, zarg(a, 1)?);
            guard_inf(|| json!(x == y))
        }
        "is_negative" => {
            let x = zarg(a, 0)?;
            guard_inf(|| json!(x.is_negative()))
        }
        // ---- ring operations
        "add" => {
            let (x, y) = (zarg(a, 0)?, zarg(a, 1)?);
            guard(|| zval(&x.add(&y)?))
        }
        "sub" => {
            let (x, y) = (zarg(a, 0)?, zarg(a, 1)?);
            guard(|| zval(&x.sub(&y)?))
        }
        "mul" => {
            let (x, y) = (zarg(a, 0)?, zarg(a, 1)?);
            guard(|| zval(&x.mul(&y)?))
        }
        "sqr" => {
            let x = zarg(a, 0)?;
            guard(|| zval(&x.sqr()?))
        }
        "div" => {
            let (x, y) = (zarg(a, 0)?, zarg(a, 1)?);
            guard(|| zval(&x.div(&y)?))
        }
        "modulus" => {
            let (x, y) = (zarg(a, 0)?, zarg(a, 1)?);
            guard(|| zval(&x.modulus(&y)?))
        }
        "mod_mul" => {
            let (x, y, n) = (zarg(a, 0)?, zarg(a, 1)?, zarg(a, 2)?);
            guard(|| zval(&x.mod_mul(&y, &n)?))
        }
        "mod_sub" => {
            let (x, y, n) = (zarg(a, 0)?, zarg(a, 1)?, zarg(a, 2)?);
            guard(|| zval(&x.mod_sub(&y, &n)?))
        }
        "mod_div" => {
            let (x, y, n) = (zarg(a, 0)?, zarg(a, 1)?, zarg(a, 2)?);
            guard(|| zval(&x.mod_div(&y, &n)?))
        }
        "exp" => {
            let (x, y) = (zarg(a, 0)?, zarg(a, 1)?);
            guard(|| zval(&x.exp(&y)?))
        }
        "mod_exp" => {
            let (x, y, n) = (zarg(a, 0)?, zarg(a, 1)?, zarg(a, 2)?);
            guard(|| zval(&x.mod_exp(&y, &n)?))
        }
        "inverse" => {
            let (x, n) = (zarg(a, 0)?, zarg(a, 1)?);
            guard(|| zval(&x.inverse(&n)?))
        }
        "gcd" => {
            let (x, y) = (zarg(a, 0)?, zarg(a, 1)?);
            guard(|| zval(&BigNumber::gcd(&x, &y)?))
        }
        // ---- shifts and bits
        "lshift1" => {
            let x = zarg(a, 0)?;
            guard(|| zval(&x.lshift1()?))
        }
        "rshift1" => {
            let x = zarg(a, 0)?;
            guard(|| zval(&x.rshift1()?))
        }
        "rshift" => {
            let (x, n) = (zarg(a, 0)?, uarg(a, 1)? as u32);
            guard(|| zval(&x.rshift(n)?))
        }
        "num_bits" => {
            let x = zarg(a, 0)?;
            guard(|| Ok::<_, ClError>(json!(x.num_bits()?)))
        }
        "is_bit_set" => {
            let (x, n) = (zarg(a, 0)?, iarg(a, 1)? as i32);
            guard(|| Ok::<_, ClError>(json!(x.is_bit_set(n)?)))
        }
        "set_bit" => {
            let (mut x, n) = (zarg(a, 0)?, iarg(a, 1)? as i32);
            guard(|| {
                x.set_bit(n)?;
                zval(&x)
            })
        }
        // ---- word operations (mutating)
        "add_word" => {
            let (mut x, w) = (zarg(a, 0)?, uarg(a, 1)? as u32);
            guard(|| {
                x.add_word(w)?;
                zval(&x)
            })
        }
        "sub_word" => {
            let (mut x, w) = (zarg(a, 0)?, uarg(a, 1)? as u32);
            guard(|| {
                x.sub_word(w)?;
                zval(&x)
            })
        }
        "mul_word" => {
            let (mut x, w) = (zarg(a, 0)?, uarg(a, 1)? as u32);
            guard(|| {
                x.mul_word(w)?;
                zval(&x)
            })
        }
        "div_word" => {
            let (mut x, w) = (zarg(a, 0)?, uarg(a, 1)? as u32);
            guard(|| {
                x.div_word(w)?;
                zval(&x)
            })
        }
        "increment" => {
            let x = zarg(a, 0)?;
            guard(|| zval(&x.increment()?))
        }
        "decrement" => {
            let x = zarg(a, 0)?;
            guard(|| zval(&x.decrement()?))
        }
        "set_negative" => {
            let (x, n) = (zarg(a, 0)?, barg(a, 1)?);
            guard(|| zval(&x.set_negative(n)?))
        }
        // ---- helpers built on the API
        "bitwise_or" => {
            let (x, y) = (zarg(a, 0)?, zarg(a, 1)?);
            guard(|| zval(&vf::bitwise_or_big_int(&x, &y)?))
        }
        "semiprime" => {
            let (g, p, q, n) = (zarg(a, 0)?, zarg(a, 1)?, zarg(a, 2)?, zarg(a, 3)?);
            guard(|| Ok::<_, ClError>(json!(g.generates_semiprime_subgroup(&p, &q, &n)?)))
        }
        // ---- primality (probabilistic; not part of the `bn` stream, used by probes and replays)
        "is_prime" => {
            let x = zarg(a, 0)?;
            guard(|| Ok::<_, ClError>(json!(x.is_prime()?)))
        }
        "is_safe_prime" => {
            let x = zarg(a, 0)?;
            guard(|| Ok::<_, ClError>(json!(x.is_safe_prime()?)))
        }
        _ => return Err(format!("unknown bn op {}", op)),
    })
}

fn trunc(s: String) -> String {
    if s.len() > 120 {
        s.chars().take(120).collect()
    } else {
        s
    }
}

pub fn apply(op: &str, a: &[Value]) -> Value {
    match run_op(op, a) {
        Ok(Out::Ok(v)) => json!({"status": "ok", "val": v}),
        Ok(Out::Err(m)) => json!({"status": "err", "val": Value::Null, "msg": trunc(m)}),
        Ok(Out::Panic(m)) => json!({"status": "panic", "val": Value::Null, "msg": trunc(m)}),
        Err(e) => json!({"status": "harness", "val": Value::Null, "msg": e}),
    }
}

/// `clh exec` op `bn_op` (replays and probes): in = {"op": .., "args": [..]}
pub fn exec(op: &str, inp: &Value) -> Option<Result<Value, String>> {
    if op != "bn_op" {
        return None;
    }
    let o = inp["op"].as_str().unwrap_or("");
    let empty = vec![];
    let args = inp["args"].as_array().unwrap_or(&empty);
    Some(Ok(json!({"backend": backend(), "impl": apply(o, args)})))
}

// ------------------------------------------------------------------ operands (no big-number library on the generator side)

/// decimal text of a big-endian magnitude
pub fn dec_from_be(bytes: &[u8]) -> String {
    // base 2^32 limbs, little-endian
    let mut limbs: Vec<u32> = Vec::new();
    let mut i = bytes.len();
    while i > 0 {
        let lo = i.saturating_sub(4);
        let mut w = 0u32;
        for b in &bytes[lo..i] {
            w = (w << 8) | *b as u32;
        }
        limbs.push(w);
        i = lo;
    }
    while limbs.last() == Some(&0) {
        limbs.pop();
    }
    if limbs.is_empty() {
        return "0".into();
    }
    let mut chunks: Vec<u32> = Vec::new();
    while !limbs.is_empty() {
        let mut rem = 0u64;
        for l in limbs.iter_mut().rev() {
            let cur = (rem << 32) | *l as u64;
            *l = (cur / 1_000_000_000) as u32;
            rem = cur % 1_000_000_000;
        }
        chunks.push(rem as u32);
        while limbs.last() == Some(&0) {
            limbs.pop();
        }
    }
    let mut out = format!("{}", chunks.pop().unwrap());
    while let Some(c) = chunks.pop() {
        out.push_str(&format!("{:09}", c));
    }
    out
}

fn neg(s: &str) -> String {
    if s == "0" {
        s.into()
    } else if let Some(t) = s.strip_prefix('-') {
        t.into()
    } else {
        format!("-{}", s)
    }
}

/// 2^k + d for d in {-1, 0, 1} as decimal text
fn pow2(k: usize, d: i32) -> String {
    let n = k / 8 + 1;
    let mut b = vec![0u8; n];
    b[n - 1 - k / 8] = 1 << (k % 8);
    match d {
        1 => {
            if k == 0 {
                return "2".into();
            }
            b[n - 1] |= 1;
        }
        -1 => {
            // 2^k - 1: k one-bits
            let mut o = vec![0xFFu8; k / 8];
            if k % 8 != 0 {
                o.insert(0, (1u8 << (k % 8)) - 1);
            }
            return dec_from_be(&o);
        }
        _ => {}
    }
    dec_from_be(&b)
}

/// uniformly random magnitude of exactly `bits` bits (top bit set), decimal text
fn rand_mag(rng: &mut Rng, bits: usize) -> String {
    if bits == 0 {
        return "0".into();
    }
    let n = (bits + 7) / 8;
    let mut b = rng.bytes(n);
    let top = (bits - 1) % 8;
    b[0] &= (0xFFu16 >> (7 - top)) as u8;
    b[0] |= 1 << top;
    dec_from_be(&b)
}

/// size distribution of random operands: 1..4096 bits, small sizes more frequent
fn rand_bits(rng: &mut Rng) -> usize {
    match rng.below(100) {
        0..=29 => rng.range(1, 64) as usize,
        30..=59 => rng.range(65, 512) as usize,
        60..=84 => rng.range(513, 2048) as usize,
        85..=94 => rng.range(2049, 4096) as usize,
        _ => *rng.pick(&[1usize, 8, 31, 32, 33, 63, 64, 65, 128, 256, 1024, 2048, 4095, 4096]),
    }
}

fn rand_int(rng: &mut Rng) -> String {
    let bits = rand_bits(rng);
    let m = rand_mag(rng, bits);
    if rng.chance(2, 5) {
        neg(&m)
    } else {
        m
    }
}

fn rand_int_max(rng: &mut Rng, maxbits: usize) -> String {
    let bits = rng.range(1, maxbits as i64) as usize;
    let m = rand_mag(rng, bits);
    if rng.chance(2, 5) {
        neg(&m)
    } else {
        m
    }
}

pub const CARMICHAEL: &[&str] = &[
    "561", "1105", "1729", "2465", "2821", "6601", "8911", "41041", "825265", "321197185", "5394826801",
    "232250619601", "9746347772161",
    // Chernick numbers (6k+1)(12k+1)(18k+1) whose factors exceed the 2048 trial-division primes of glass_pumpkin
    "35700127755121", "37686301288201", "57060521336809",
    "386007699134627392741960852648423145645909879484785758609720275807602184721",
    "188920918756007600944123125562313043451461075597777194735767964389956961",
];
/// strong pseudoprimes to the first k prime bases (psi_1 .. psi_13)
pub const STRONG_PSP: &[&str] = &[
    "2047", "1373653", "25326001", "3215031751", "2152302898747", "3474749660383", "341550071728321",
    "3825123056546413051", "318665857834031151167461", "3317044064679887385961981",
];
pub const SAFE_PRIMES: &[&str] = &[
    "5", "7", "11", "23", "47", "59", "83", "107", "167", "179", "227", "263", "1019", "2879",
    // 2p+1 for the first three chain starts of the crate's own is_safe_prime test
    "36176774435806660919", "66752927214043285120774593899", "340282366920938463463374607434335466179",
];
/// RFC 2409 group 1 (768 bit) and RFC 3526 group 5 (1536 bit) primes: safe primes (literature)
pub const SAFE_PRIMES_HEX: &[&str] = &[
    "FFFFFFFFFFFFFFFFC90FDAA22168C234C4C6628B80DC1CD129024E088A67CC74020BBEA63B139B22514A08798E3404DDEF9519B3CD3A431B302B0A6DF25F14374FE1356D6D51C245E485B576625E7EC6F44C42E9A63A3620FFFFFFFFFFFFFFFF",
    "FFFFFFFFFFFFFFFFC90FDAA22168C234C4C6628B80DC1CD129024E088A67CC74020BBEA63B139B22514A08798E3404DDEF9519B3CD3A431B302B0A6DF25F14374FE1356D6D51C245E485B576625E7EC6F44C42E9A637ED6B0BFF5CB6F406B7EDEE386BFB5A899FA5AE9F24117C4B1FE649286651ECE45B3DC2007CB8A163BF0598DA48361C55D39A69163FA8FD24CF5F83655D23DCA3AD961C62F356208552BB9ED529077096966D670C354E4ABC9804F1746C08CA237327FFFFFFFFFFFFFFFF",
];
/// primes p with (p-1)/2 composite
pub const NONSAFE_PRIMES: &[&str] = &[
    "2", "3", "13", "17", "19", "29", "31", "37", "41", "97", "65537", "2147483647", "42885908609", "24473809133", "47055833459",
    "18088387217903330459", "33376463607021642560387296949", "170141183460469231731687303717167733089",
];
/// Mersenne exponents (2^e - 1 prime, not safe) and 2^255 - 19
pub const MERSENNE: &[usize] = &[61, 89, 107, 127, 521, 607, 1279];

fn hex_to_dec(h: &str) -> String {
    let mut s = h.to_lowercase();
    if s.len() % 2 == 1 {
        s.insert(0, '0');
    }
    dec_from_be(&unhex(&s).unwrap_or_default())
}

fn dec_sub_small(k: usize, d: u8) -> String {
    // 2^k - d for small d (k >= 8)
    let mut o = vec![0xFFu8; k / 8];
    if k % 8 != 0 {
        o.insert(0, (1u8 << (k % 8)) - 1);
    }
    let n = o.len();
    o[n - 1] -= d - 1;
    dec_from_be(&o)
}

pub fn corpus_primes() -> Vec<String> {
    let mut v: Vec<String> = SAFE_PRIMES.iter().chain(NONSAFE_PRIMES.iter()).map(|s| s.to_string()).collect();
    v.extend(SAFE_PRIMES_HEX.iter().map(|h| hex_to_dec(h)));
    v.extend(MERSENNE.iter().map(|e| pow2(*e, -1)));
    v.push(dec_sub_small(255, 19));
    v
}

/// the full edge list (both signs)
fn edge_values() -> Vec<String> {
    let mut v: Vec<String> = vec!["0", "1", "2", "3", "4", "5", "7", "10", "15", "16", "255", "256", "257"].into_iter().map(String::from).collect();
    for k in [7usize, 8, 15, 16, 31, 32, 33, 63, 64, 65, 127, 128, 255, 256, 511, 512, 1023, 1024, 2047, 2048, 4095, 4096] {
        for d in [-1, 0, 1] {
            v.push(pow2(k, d));
        }
    }
    v.extend(CARMICHAEL.iter().map(|s| s.to_string()));
    v.extend(STRONG_PSP.iter().map(|s| s.to_string()));
    v.extend(corpus_primes());
    let mut out = Vec::new();
    for x in v {
        if x != "0" {
            out.push(neg(&x));
        }
        out.push(x);
    }
    out.sort();
    out.dedup();
    out
}

/// a small edge list for the exhaustive crosses (both signs)
fn edge_small(n: usize) -> Vec<String> {
    let base: Vec<String> = vec![
        "0".into(), "1".into(), "-1".into(), "2".into(), "-2".into(), "3".into(), "-3".into(), "5".into(), "-5".into(), "6".into(),
        "12".into(), "-12".into(), "13".into(), "-13".into(), "255".into(), "256".into(), "-256".into(), "561".into(), "-561".into(),
        "2047".into(), "23".into(), "-23".into(), "47".into(), "65537".into(),
        pow2(32, -1), pow2(32, 0), neg(&pow2(32, 0)), pow2(64, -1), pow2(64, 0), pow2(64, 1), neg(&pow2(64, 1)),
        pow2(127, -1), neg(&pow2(127, -1)), pow2(128, 0), pow2(521, -1), pow2(1024, 1), neg(&pow2(1024, 0)), pow2(4096, -1), neg(&pow2(4096, 0)),
        "36176774435806660919".into(), "3317044064679887385961981".into(),
    ];
    base.into_iter().take(n).collect()
}

// ------------------------------------------------------------------ case emission

struct Emitter {
    stream: &'static str,
    n: usize,
}

impl Emitter {
    fn case(&mut self, op: &str, args: Vec<Value>, origin: &str) {
        let isolated = op == "set_bit" && args.get(1).and_then(|v| v.as_i64()).map(|n| n < 0 || n > 1 << 24).unwrap_or(false);
        let imp = if isolated { apply_isolated(op, &args) } else { apply(op, &args) };
        let st = imp["status"].as_str().unwrap_or("?").to_string();
        emit(&json!({
            "id": format!("{}/{}", self.stream, self.n),
            "op": "bn_op",
            "in": {"backend": backend(), "op": op, "args": args},
            "impl": imp,
            "class": {"bn_op": op, "origin": origin, "status": format!("{}:{}", op, st)},
        }));
        self.n += 1;
    }
}

/// run one operation in a child process (operations that may abort the process)
fn apply_isolated(op: &str, args: &[Value]) -> Value {
    use std::io::Write;
    use std::process::{Command, Stdio};
    let exe = match std::env::current_exe() {
        Ok(e) => e,
        Err(e) => return json!({"status": "harness", "val": Value::Null, "msg": e.to_string()}),
    };
    let child = Command::new(exe).arg("exec").stdin(Stdio::piped()).stdout(Stdio::piped()).stderr(Stdio::null()).spawn();
    let mut child = match child {
        Ok(c) => c,
        Err(e) => return json!({"status": "harness", "val": Value::Null, "msg": e.to_string()}),
    };
    let line = json!({"id": 0, "op": "bn_op", "in": {"op": op, "args": args}}).to_string();
    if let Some(mut si) = child.stdin.take() {
        let _ = si.write_all(line.as_bytes());
        let _ = si.write_all(b"\n");
    }
    match child.wait_with_output() {
        Ok(o) => {
            let text = String::from_utf8_lossy(&o.stdout).to_string();
            if let Some(l) = text.lines().next() {
                if let Ok(v) = serde_json::from_str::<Value>(l) {
                    if v["out"]["impl"].is_object() {
                        return v["out"]["impl"].clone();
                    }
                }
            }
            // the child died before answering: the call aborted the process (not catchable)
            json!({"status": "panic", "val": Value::Null, "msg": format!("process abort ({})", o.status)})
        }
        Err(e) => json!({"status": "harness", "val": Value::Null, "msg": e.to_string()}),
    }
}

const UNARY: &[&str] = &["to_dec", "to_hex", "to_bytes", "sqr", "lshift1", "rshift1", "num_bits", "increment", "decrement", "is_negative"];
const BINARY: &[&str] = &["add", "sub", "mul", "div", "modulus", "gcd", "cmp", "eq", "inverse", "bitwise_or"];
const TERNARY: &[&str] = &["mod_mul", "mod_sub", "mod_div", "mod_exp"];
const WORDOPS: &[&str] = &["add_word", "sub_word", "mul_word", "div_word"];
const WORDS: &[u64] = &[0, 1, 2, 3, 7, 10, 255, 256, 65535, 65536, 2147483647, 2147483648, 4294967295];
const BIT_IDX: &[i64] = &[0, 1, 2, 7, 8, 31, 32, 63, 64, 65, 127, 128, 1000, 4095, 4096, 4097];
const SHIFTS: &[u64] = &[0, 1, 2, 7, 8, 31, 32, 63, 64, 65, 1000, 4096, 5000, 2147483647, 2147483648, 4294967295];

pub const MALFORMED: &[&str] = &[
    "", "-", "+", "+5", "-5", "5x", " 5", "5 ", "0x10", "0X10", "007", "-0", "+0", "-007", "1_000", "_1", "1_", "--5", "-+5", "+-5", "++5",
    "x5", "5-", "1__0", "-_1", "12a", "१२", "5\u{0}", "\u{0}5", "-x", "5.0", "5e3", "1,000", "٣", "５", "\t5", "5\n", "0", "00", "-00", "a", "f", "F",
    "ff", "FF", "fF", "+ff", "-ff", "0xff", "fg", "00ff", "f_f", " ff", "g", "-g", "-F_", "Ff00", "deadBEEF", "z", "1z", "-1Z",
];

fn text_cases(em: &mut Emitter, thorough: bool, rng: &mut Rng) {
    for s in MALFORMED {
        em.case("from_dec", vec![json!(s)], "malformed");
        em.case("from_hex", vec![json!(s)], "malformed");
    }
    // very long numerals and very long garbage
    let long: String = (0..5000).map(|i| char::from(b'0' + ((i * 7 + 3) % 10) as u8)).collect();
    em.case("from_dec", vec![json!(long)], "long");
    em.case("from_dec", vec![json!(format!("-{}", long))], "long");
    em.case("from_dec", vec![json!(format!("{}x", long))], "long");
    em.case("from_dec", vec![json!(format!("{}{}", "0".repeat(3000), "17"))], "long");
    em.case("from_hex", vec![json!(long)], "long");
    em.case("from_hex", vec![json!("F".repeat(4001))], "long");
    em.case("from_hex", vec![json!(format!("{}g", "ab".repeat(700)))], "long");
    let n = if thorough { 20000 } else { 400 };
    for _ in 0..n {
        // valid numerals: canonical, with leading zeros, hex in both cases
        let v = rand_int(rng);
        match rng.below(6) {
            0 => em.case("from_dec", vec![json!(v)], "numeral"),
            1 => {
                let (sg, m) = if let Some(t) = v.strip_prefix('-') { ("-", t) } else { ("", v.as_str()) };
                em.case("from_dec", vec![json!(format!("{}{}{}", sg, "0".repeat(rng.range(1, 4) as usize), m))], "numeral-leading-zeros")
            }
            2 | 3 => {
                let nb = rng.range(1, 64) as usize;
                let b = rng.bytes(nb);
                let mut h: String = b.iter().map(|x| if rng.0 & 1 == 0 { format!("{:02x}", x) } else { format!("{:02X}", x) }).collect();
                if rng.chance(1, 3) {
                    h = h.trim_start_matches('0').to_string();
                }
                if rng.chance(1, 3) {
                    h.insert(0, '-');
                }
                em.case("from_hex", vec![json!(h)], "numeral")
            }
            _ => {
                // one mutation of a valid numeral: insert a foreign character somewhere
                let mut cs: Vec<char> = v.chars().collect();
                let pos = rng.below(cs.len() as u64 + 1) as usize;
                let c = *rng.pick(&['+', '-', '_', ' ', 'x', 'a', 'F', 'g', '.', '\u{0}', '/', ':', '@', 'G', '`']);
                cs.insert(pos, c);
                let m: String = cs.into_iter().collect();
                if rng.chance(1, 2) {
                    em.case("from_dec", vec![json!(m)], "mutated")
                } else {
                    em.case("from_hex", vec![json!(m)], "mutated")
                }
            }
        }
    }
    // bytes
    for h in ["", "00", "0000", "01", "ff", "00ff", "0000ff", "ff00", "0100", "80", "7f", "ffffffffffffffff", "010000000000000000"] {
        em.case("from_bytes", vec![json!(h)], "edge");
    }
    for _ in 0..(if thorough { 5000 } else { 150 }) {
        let hi = if rng.chance(1, 10) { 512 } else { 40 };
        let nb = rng.range(0, hi) as usize;
        let mut b = rng.bytes(nb);
        if rng.chance(1, 3) {
            let z = rng.range(0, 3) as usize;
            for x in b.iter_mut().take(z) {
                *x = 0;
            }
        }
        em.case("from_bytes", vec![json!(hex(&b))], "random");
    }
    for n in [0u64, 1, 2, 255, 65536, 2147483647, 2147483648, 4294967295, 4294967296, 4294967301, 1 << 63, u64::MAX] {
        em.case("from_u32", vec![json!(n)], "edge");
    }
}

fn exp_cases(em: &mut Emitter, thorough: bool, rng: &mut Rng) {
    let big = ["18446744073709551615", "18446744073709551616", "18446744073709551617", "340282366920938463463374607431768211456"];
    for b in ["0", "1", "-1"] {
        for e in big.iter() {
            em.case("exp", vec![json!(b), json!(e)], "edge-huge-exponent");
            em.case("exp", vec![json!(b), json!(neg(e))], "edge-huge-exponent");
        }
    }
    for b in ["0", "1", "-1", "2", "-2", "3", "10", "-10", "255", "256", "65537", "-4294967296", "18446744073709551616"] {
        for e in ["0", "1", "2", "3", "5", "16", "31", "32", "33", "64", "100", "-1", "-2", "-3"] {
            em.case("exp", vec![json!(b), json!(e)], "edge");
        }
    }
    em.case("exp", vec![json!("2"), json!("596")], "edge");
    em.case("exp", vec![json!("2"), json!("4096")], "edge");
    em.case("exp", vec![json!("-2"), json!("4097")], "edge");
    for _ in 0..(if thorough { 10000 } else { 250 }) {
        let b = rand_int_max(rng, 96);
        let e = rng.range(0, 160);
        let e = if rng.chance(1, 12) { -e } else { e };
        em.case("exp", vec![json!(b), json!(e.to_string())], "random");
    }
}

fn gen_bn(thorough: bool, rng: &mut Rng) -> Result<(), String> {
    let mut em = Emitter { stream: "bn", n: 0 };
    let edges = edge_values();
    // ---- unary: every edge value
    for op in UNARY {
        for x in &edges {
            em.case(op, vec![json!(x)], "edge");
        }
    }
    for x in &edges {
        em.case("set_negative", vec![json!(x), json!(true)], "edge");
        em.case("set_negative", vec![json!(x), json!(false)], "edge");
    }
    // ---- binary: exhaustive cross of the small edge list
    let e2 = edge_small(if thorough { 41 } else { 24 });
    for op in BINARY {
        for x in &e2 {
            for y in &e2 {
                em.case(op, vec![json!(x), json!(y)], "edge-cross");
            }
        }
    }
    // moduli 1, 2, -m against every edge value
    for m in ["1", "-1", "2", "-2", "0", "3", "-3", "561", "-561", "2047", "36176774435806660919"] {
        for x in edges.iter().step_by(if thorough { 1 } else { 3 }) {
            em.case("modulus", vec![json!(x), json!(m)], "edge-moduli");
            em.case("inverse", vec![json!(x), json!(m)], "edge-moduli");
        }
    }
    // ---- ternary: exhaustive cross of a smaller list
    let e3 = edge_small(if thorough { 16 } else { 9 });
    let m3: Vec<String> = vec!["0", "1", "-1", "2", "-2", "5", "-5", "12", "13", "-13", "561", "2047", "18446744073709551616", "36176774435806660919"]
        .into_iter()
        .map(String::from)
        .collect();
    for op in TERNARY {
        for x in &e3 {
            for y in &e3 {
                for m in &m3 {
                    em.case(op, vec![json!(x), json!(y), json!(m)], "edge-cross");
                }
            }
        }
    }
    // semiprime subgroup test: the crate's own example, small safe moduli, degenerate inputs
    let sp: &[[&str; 4]] = &[
        ["4", "9056990664109556783", "7256373851099466689", "262883640898786323684721809348268052893"],
        ["83826306846185295424745260846198095936", "9056990664109556783", "7256373851099466689", "262883640898786323684721809348268052893"],
        ["1", "3", "5", "77"], ["4", "3", "5", "77"], ["9", "3", "5", "77"], ["16", "3", "5", "77"], ["23", "3", "5", "77"], ["78", "3", "5", "77"],
        ["4", "3", "5", "0"], ["1", "3", "5", "0"], ["4", "-3", "5", "77"], ["2", "3", "5", "1"], ["0", "3", "5", "77"], ["-1", "3", "5", "77"],
        ["76", "3", "5", "77"], ["4", "0", "5", "77"], ["4", "3", "0", "77"], ["4", "11", "23", "1081"], ["2", "11", "23", "1081"], ["4", "3", "5", "-77"],
    ];
    for c in sp {
        em.case("semiprime", c.iter().map(|s| json!(s)).collect(), "edge");
    }
    for g in 0..(if thorough { 1081 } else { 120 }) {
        em.case("semiprime", vec![json!(g.to_string()), json!("11"), json!("23"), json!("1081")], "sweep-1081");
    }
    // ---- word operations, bits, shifts
    let ew = edge_small(if thorough { 41 } else { 20 });
    for op in WORDOPS {
        for x in &ew {
            for w in WORDS {
                em.case(op, vec![json!(x), json!(w)], "edge-cross");
            }
        }
    }
    for x in &ew {
        for i in BIT_IDX {
            em.case("is_bit_set", vec![json!(x), json!(i)], "edge-cross");
            em.case("set_bit", vec![json!(x), json!(i)], "edge-cross");
        }
        for i in [-1i64, -2147483648, 2147483647] {
            em.case("is_bit_set", vec![json!(x), json!(i)], "edge-index");
        }
        for s in SHIFTS {
            em.case("rshift", vec![json!(x), json!(s)], "edge-cross");
        }
    }
    // a negative index of set_bit used to abort the pure-Rust build (fixed: an error now); still run in a
    // child process so that a regression cannot take the generator down
    em.case("set_bit", vec![json!("5"), json!(-1)], "edge-index");
    em.case("set_bit", vec![json!("0"), json!(-2147483648i64)], "edge-index");
    exp_cases(&mut em, thorough, rng);
    text_cases(&mut em, thorough, rng);

    // ---- random operands of 1..4096 bits, both signs
    let scale = if thorough { 60 } else { 1 };
    for _ in 0..(120 * scale) {
        let x = rand_int(rng);
        for op in UNARY {
            em.case(op, vec![json!(x)], "random");
        }
        em.case("set_negative", vec![json!(x), json!(rng.chance(1, 2))], "random");
        // round trips through text and bytes are checked by the comparator from these
    }
    for _ in 0..(160 * scale) {
        let (x, y) = (rand_int(rng), if rng.chance(1, 6) { rand_int_max(rng, 64) } else { rand_int(rng) });
        for op in ["add", "sub", "mul", "div", "modulus", "gcd", "cmp", "eq"] {
            em.case(op, vec![json!(x), json!(y)], "random");
        }
        if rng.chance(1, 8) {
            em.case("cmp", vec![json!(x), json!(x)], "random-equal");
            em.case("eq", vec![json!(x), json!(x)], "random-equal");
        }
    }
    for _ in 0..(400 * scale) {
        // inverse: modulus of any sign, odd half of the time; operand of any sign and size
        let mut n = rand_int_max(rng, 1024);
        if rng.chance(1, 2) {
            n = make_odd(&n);
        }
        if rng.chance(1, 4) {
            n = rng.pick(&corpus_primes()).clone();
        }
        let a = if rng.chance(1, 3) { rand_int(rng) } else { rand_int_max(rng, 1100) };
        em.case("inverse", vec![json!(a), json!(n)], "random");
        if rng.chance(1, 2) {
            let x = rand_int_max(rng, 1100);
            em.case("mod_div", vec![json!(x), json!(a), json!(n)], "random");
        }
    }
    for _ in 0..(200 * scale) {
        let n = rand_int(rng);
        let (x, y) = (rand_int(rng), rand_int(rng));
        em.case("mod_mul", vec![json!(x), json!(y), json!(n)], "random");
        em.case("mod_sub", vec![json!(x), json!(y), json!(n)], "random");
    }
    for _ in 0..(300 * scale) {
        // mod_exp: sizes up to 4096 bits but mostly <= 1024 (pure-Rust modpow is slow)
        let maxb = *rng.pick(&[64usize, 64, 256, 256, 512, 1024, 1024, 2048, 4096]);
        let mut n = rand_int_max(rng, maxb);
        if rng.chance(2, 3) {
            n = make_odd(&n);
        }
        if rng.chance(1, 5) {
            n = rng.pick(&corpus_primes()).clone();
        }
        let a = rand_int_max(rng, maxb + 8);
        let e = rand_int_max(rng, maxb);
        em.case("mod_exp", vec![json!(a), json!(e), json!(n)], "random");
    }
    for _ in 0..(200 * scale) {
        let x = rand_int(rng);
        let w = if rng.chance(1, 2) { rng.next() as u32 as u64 } else { *rng.pick(WORDS) };
        for op in WORDOPS {
            em.case(op, vec![json!(x), json!(w)], "random");
        }
        let i = rng.range(0, 4200);
        em.case("is_bit_set", vec![json!(x), json!(i)], "random");
        em.case("set_bit", vec![json!(x), json!(i)], "random");
        em.case("rshift", vec![json!(x), json!(rng.range(0, 4200))], "random");
    }
    for _ in 0..(150 * scale) {
        let (x, y) = (rand_int_max(rng, 700), rand_int_max(rng, 700));
        em.case("bitwise_or", vec![json!(x.trim_start_matches('-')), json!(y.trim_start_matches('-'))], "random-nonneg");
        if rng.chance(1, 5) {
            em.case("bitwise_or", vec![json!(x), json!(y)], "random");
        }
    }
    eprintln!("bn: {} cases", em.n);
    Ok(())
}

fn make_odd(s: &str) -> String {
    // decimal text: force the last digit odd
    let mut cs: Vec<char> = s.chars().collect();
    if let Some(l) = cs.last_mut() {
        let d = l.to_digit(10).unwrap_or(1);
        if d % 2 == 0 {
            *l = char::from_digit(d + 1, 10).unwrap_or('1');
        }
    }
    cs.into_iter().collect()
}

// ------------------------------------------------------------------ random generators and primality (contracts, checked statistically)

fn rcase(n: &mut usize, kind: &str, mut inp: Value, imp: Value, label: &str) {
    inp["backend"] = json!(backend());
    inp["kind"] = json!(kind);
    // generated primes are handed to the driver (Miller-Rabin test, buffer-construction fixed point)
    if matches!(kind, "generate_prime" | "generate_safe_prime" | "prime_in_range") {
        let vals = imp["values"].clone();
        if inp["cand"].is_object() {
            inp["cand"]["values"] = vals.clone();
        }
        inp["mr"] = vals;
    }
    emit(&json!({
        "id": format!("bn_random/{}", *n),
        "op": "bn_random",
        "in": inp,
        "impl": imp,
        "class": {"kind": kind, "label": format!("{}:{}", kind, label)},
    }));
    *n += 1;
}

fn verdicts(kind: &str, ns: &[String]) -> Value {
    let v: Vec<Value> = ns
        .iter()
        .map(|s| {
            let x = match guard(|| BigNumber::from_dec(s)) {
                Out::Ok(x) => x,
                _ => return json!({"status": "harness"}),
            };
            let o = if kind == "is_prime" { guard(|| x.is_prime()) } else { guard(|| x.is_safe_prime()) };
            match o {
                Out::Ok(b) => json!({"status": "ok", "val": b}),
                Out::Err(_) => json!({"status": "err"}),
                Out::Panic(_) => json!({"status": "panic"}),
            }
        })
        .collect();
    json!({"status": "ok", "verdicts": v})
}

fn draws(n: usize, f: impl Fn() -> Result<BigNumber, ClError>) -> Value {
    let mut vals = Vec::new();
    for _ in 0..n {
        match guard(|| f()?.to_dec()) {
            Out::Ok(s) => vals.push(json!(s)),
            Out::Err(m) => return json!({"status": "err", "msg": trunc(m), "values": vals}),
            Out::Panic(m) => return json!({"status": "panic", "msg": trunc(m), "values": vals}),
        }
    }
    json!({"status": "ok", "values": vals})
}

fn mode_str() -> &'static str {
    if cfg!(debug_assertions) {
        "checked"
    } else {
        "wrapping"
    }
}

fn gen_bn_random(thorough: bool, rng: &mut Rng) -> Result<(), String> {
    let mut n = 0usize;
    // ---- primality verdicts: small numbers exhaustively, the corpus, products, random odd numbers
    let small_hi = if thorough { 20000 } else { 2000 };
    let mut lists: Vec<(String, Vec<String>)> = Vec::new();
    let small: Vec<String> = (-8i64..=small_hi).map(|x| x.to_string()).collect();
    for (k, ch) in small.chunks(500).enumerate() {
        lists.push((format!("small-{}", k), ch.to_vec()));
    }
    lists.push(("carmichael".into(), CARMICHAEL.iter().map(|s| s.to_string()).collect()));
    lists.push(("strong-pseudoprimes".into(), STRONG_PSP.iter().map(|s| s.to_string()).collect()));
    let cp = corpus_primes();
    lists.push(("corpus-primes".into(), cp.clone()));
    lists.push(("corpus-primes-negated".into(), cp.iter().take(12).map(|s| neg(s)).collect()));
    // neighbours of the corpus primes and 2p+1 / (p-1)/2 relatives are produced with the library's
    // own add_word/lshift1 only to build operands (their value is re-read as decimal text)
    let mut rel = Vec::new();
    for p in cp.iter() {
        if let Ok(x) = BigNumber::from_dec(p) {
            if let Ok(y) = x.lshift1().and_then(|y| y.increment()).and_then(|y| y.to_dec()) {
                rel.push(y);
            }
            if let Ok(y) = x.add(&BigNumber::from_u32(2).unwrap()).and_then(|y| y.to_dec()) {
                rel.push(y);
            }
        }
    }
    lists.push(("corpus-relatives".into(), rel));
    let mut prods = Vec::new();
    for i in 0..cp.len() {
        let j = (i * 7 + 3) % cp.len();
        if let (Ok(a), Ok(b)) = (BigNumber::from_dec(&cp[i]), BigNumber::from_dec(&cp[j])) {
            if let Ok(s) = a.mul(&b).and_then(|m| m.to_dec()) {
                prods.push(s);
            }
        }
    }
    lists.push(("corpus-products".into(), prods));
    let mut rnd = Vec::new();
    for _ in 0..(if thorough { 3000 } else { 150 }) {
        let bits = *rng.pick(&[16usize, 31, 32, 33, 63, 64, 65, 128, 256, 512]);
        rnd.push(make_odd(&rand_mag(rng, bits)));
    }
    lists.push(("random-odd".into(), rnd));
    for (label, l) in &lists {
        rcase(&mut n, "is_prime", json!({"mr": l}), verdicts("is_prime", l), label);
        rcase(&mut n, "is_safe_prime", json!({"mr": l}), verdicts("is_safe_prime", l), label);
    }
    // ---- rand(size): range and top-bit reachability
    let nd = if thorough { 4096 } else { 512 };
    for size in [0usize, 1, 2, 3, 7, 8, 9, 31, 32, 33, 63, 64, 65, 80, 128, 256, 592, 1024, 2128, 2724, 3060] {
        rcase(&mut n, "rand", json!({"size": size, "draws": nd}), draws(nd, || BigNumber::rand(size)), &size.to_string());
    }
    // ---- rand_range(bound)
    let bounds: Vec<String> = vec![
        "1".into(), "2".into(), "3".into(), "5".into(), "8".into(), "255".into(), "256".into(), "257".into(), pow2(64, 0), pow2(64, 1),
        "13835058055282163712".into(), pow2(127, -1), pow2(1024, 1), "262883640898786323684721809348268052893".into(),
    ];
    for b in &bounds {
        let x = BigNumber::from_dec(b).map_err(|e| e.to_string())?;
        rcase(&mut n, "rand_range", json!({"bound": b, "draws": nd}), draws(nd, || x.rand_range()), "nonempty");
    }
    for b in ["0", "-1", "-5", "-18446744073709551616"] {
        let x = BigNumber::from_dec(b).map_err(|e| e.to_string())?;
        rcase(&mut n, "rand_range", json!({"bound": b, "draws": 4, "expect": "err"}), draws(4, || x.rand_range()), "empty");
    }
    // ---- generate_prime / generate_safe_prime
    let psizes: &[usize] = if thorough { &[2, 3, 8, 16, 32, 64, 127, 128, 129, 256, 512, 1024] } else { &[2, 3, 8, 16, 32, 64, 127, 128, 129, 256] };
    for size in psizes {
        let k = if *size <= 256 { 6 } else { 2 };
        rcase(&mut n, "generate_prime", json!({"args": {"size": size}}), draws(k, || BigNumber::generate_prime(*size)), &size.to_string());
    }
    let ssizes: &[usize] = if thorough { &[16, 64, 128, 160, 256, 512] } else { &[16, 64, 128, 160] };
    for size in ssizes {
        rcase(&mut n, "generate_safe_prime", json!({"args": {"size": size}}), draws(2, || BigNumber::generate_safe_prime(*size)), &size.to_string());
    }
    // ---- generate_prime_in_range(size, range): bounds, oddness, primality, top bit of the range
    let pairs: &[(usize, usize)] = &[(596, 119), (592, 100), (16, 9), (15, 9), (10, 10), (9, 4), (2, 2), (7, 7), (8, 3), (17, 15), (64, 16), (592, 96), (24, 8), (16, 16)];
    for (size, range) in pairs {
        let k = if *size > 100 { if thorough { 64 } else { 24 } } else { if thorough { 256 } else { 48 } };
        rcase(
            &mut n,
            "prime_in_range",
            json!({"args": {"size": size, "range": range, "mode": mode_str()}, "cand": {"size": size, "range": range, "mode": mode_str()}}),
            draws(k, || BigNumber::generate_prime_in_range(*size, *range)),
            &format!("{}/{}", size, range),
        );
    }
    // ---- random_qr(n) for n = p*q with known factors (Euler criterion in the comparator)
    for (p, q, nn) in [
        ("23", "47", "1081"),
        ("167", "179", "29893"),
        ("1019", "2879", "2933701"),
        ("36176774435806660919", "66752927214043285120774593899", "2414905590752263867753074482044153231971419133181"),
    ] {
        let x = BigNumber::from_dec(nn).map_err(|e| e.to_string())?;
        let k = if thorough { 1024 } else { 96 };
        rcase(&mut n, "random_qr", json!({"args": {"p": p, "q": q}}), draws(k, || BigNumber::random_qr(&x)), nn);
    }
    eprintln!("bn_random: {} cases", n);
    Ok(())
}

// ------------------------------------------------------------------ artefact exchange between the two builds (C18)

fn xchg_dir(be: &str) -> std::path::PathBuf {
    std::path::PathBuf::from(env!("CARGO_MANIFEST_DIR")).join("..").join("work").join("xchg").join(be)
}

fn other_backend() -> &'static str {
    if cfg!(feature = "ossl") {
        "rust"
    } else {
        "openssl"
    }
}

fn bmap(xs: &[(&str, &str)]) -> std::collections::BTreeMap<String, String> {
    xs.iter().map(|(k, v)| (k.to_string(), v.to_string())).collect()
}

fn make_request() -> Result<anoncreds_clsignatures::SubProofRequest, String> {
    use anoncreds_clsignatures::Verifier;
    let mut b = Verifier::new_sub_proof_request_builder().map_err(|e| e.to_string())?;
    b.add_revealed_attr("name").map_err(|e| e.to_string())?;
    b.add_revealed_attr("zip").map_err(|e| e.to_string())?;
    b.add_revealed_attr("level").map_err(|e| e.to_string())?;
    b.add_predicate("age", "GE", 18).map_err(|e| e.to_string())?;
    b.finalize().map_err(|e| e.to_string())
}

fn prove(
    cd: &crate::fixtures::CredDef,
    sig: &anoncreds_clsignatures::CredentialSignature,
    values: &anoncreds_clsignatures::CredentialValues,
    spr: &anoncreds_clsignatures::SubProofRequest,
    nonce: &BigNumber,
) -> Result<anoncreds_clsignatures::Proof, String> {
    use anoncreds_clsignatures::Prover;
    let e = |x: ClError| x.to_string();
    let mut pb = Prover::new_proof_builder().map_err(e)?;
    pb.add_common_attribute("master_secret").map_err(e)?;
    pb.add_sub_proof_request(spr, &cd.schema, &cd.non_schema, sig, values, &cd.pk, None, None).map_err(e)?;
    pb.finalize(nonce).map_err(e)
}

fn verify(
    cd: &crate::fixtures::CredDef,
    spr: &anoncreds_clsignatures::SubProofRequest,
    proof: &anoncreds_clsignatures::Proof,
    nonce: &BigNumber,
) -> Result<bool, String> {
    use anoncreds_clsignatures::Verifier;
    let e = |x: ClError| x.to_string();
    let mut pv = Verifier::new_proof_verifier().map_err(e)?;
    pv.add_common_attribute("master_secret").map_err(e)?;
    pv.add_sub_proof_request(spr, &cd.schema, &cd.non_schema, &cd.pk, None, None).map_err(e)?;
    pv.verify(proof, nonce).map_err(e)
}

/// produce: keys (fixture; a fresh credential definition in the thorough tier), a credential whose
/// values include 0 and numbers with zero low/high bytes, a presentation with a random nonce and
/// one with the degenerate nonce 0; everything is verified locally and written as JSON
fn gen_xchg_make(thorough: bool, _rng: &mut Rng) -> Result<(), String> {
    use crate::fixtures::{issue, load_fixture, CredDef};
    let dir = xchg_dir(backend());
    std::fs::create_dir_all(&dir).map_err(|e| e.to_string())?;
    let mut results = Vec::new();
    let mut defs: Vec<(String, CredDef)> = vec![("fixture:pqr_norev".to_string(), load_fixture("pqr_norev")?)];
    if thorough {
        let spec = crate::fixtures::fixture_specs().into_iter().find(|s| s.0 == "pqr_norev").ok_or("no spec")?;
        defs.push((format!("fresh:{}", backend()), CredDef::generate(&spec.1, &spec.2, false)?));
    }
    for (k, (label, cd)) in defs.iter().enumerate() {
        let known = bmap(&[
            ("name", "0"),
            ("score", "255"),
            ("level", "256"),
            ("age", "28"),
            ("balance", "340282366920938463463374607431768211456"),
            ("zip", "65536"),
        ]);
        let hidden = bmap(&[("master_secret", "1139481716457488690172217916278103335"), ("policy", "0")]);
        let r = guard(|| -> Result<Value, String> {
            let cred = issue(cd, &known, &hidden, "xchg-prover", None)?;
            let spr = make_request()?;
            let nonce = anoncreds_clsignatures::new_nonce().map_err(|e| e.to_string())?;
            let proof = prove(cd, &cred.sig, &cred.values, &spr, &nonce)?;
            let zero = BigNumber::from_dec("0").map_err(|e| e.to_string())?;
            let proof0 = prove(cd, &cred.sig, &cred.values, &spr, &zero)?;
            let ok1 = verify(cd, &spr, &proof, &nonce)?;
            let ok0 = verify(cd, &spr, &proof0, &zero)?;
            let art = json!({
                "producer": backend(), "keys": label, "cred_def": cd.to_json(),
                "sig": jv(&cred.sig), "values": jv(&cred.values),
                "proof": jv(&proof), "nonce": nonce.to_dec().map_err(|e| e.to_string())?,
                "proof0": jv(&proof0), "self_verified": ok1, "self_verified_zero_nonce": ok0,
            });
            std::fs::write(dir.join(format!("art_{}.json", k)), serde_json::to_string(&art).unwrap()).map_err(|e| e.to_string())?;
            Ok(json!({"ok1": ok1, "ok0": ok0}))
        });
        let (ok, detail) = match &r {
            Out::Ok(v) => (v["ok1"] == json!(true) && v["ok0"] == json!(true), v.to_string()),
            o => (false, format!("{}: {}", o.tag(), o.msg())),
        };
        results.push(json!({"what": "produce_and_self_verify", "ok": ok, "producer": backend(), "artefact": format!("art_{} ({})", k, label), "detail": detail}));
    }
    emit(&json!({"id": "bn_xchg_make/0", "op": "bn_xchg", "in": {"backend": backend(), "role": "produce"}, "impl": {"results": results},
        "class": {"role": "produce"}}));
    Ok(())
}

/// consume the artefacts written by the other build
fn gen_xchg(_thorough: bool, _rng: &mut Rng) -> Result<(), String> {
    use crate::fixtures::CredDef;
    let dir = xchg_dir(other_backend());
    let mut results = Vec::new();
    let mut push = |what: &str, ok: bool, art: &str, detail: String| {
        results.push(json!({"what": what, "ok": ok, "producer": other_backend(), "artefact": art, "detail": detail}));
    };
    let mut files: Vec<_> = match std::fs::read_dir(&dir) {
        Ok(rd) => rd.filter_map(|e| e.ok()).map(|e| e.path()).filter(|p| p.extension().map(|x| x == "json").unwrap_or(false)).collect(),
        Err(e) => {
            push("artefacts_present", false, "-", format!("{}: {}", dir.display(), e));
            Vec::new()
        }
    };
    files.sort();
    if files.is_empty() {
        push("artefacts_present", false, "-", format!("no artefacts of the other build in {}", dir.display()));
    }
    for f in files {
        let name = f.file_name().map(|x| x.to_string_lossy().to_string()).unwrap_or_default();
        let txt = std::fs::read_to_string(&f).map_err(|e| e.to_string())?;
        let art: Value = serde_json::from_str(&txt).map_err(|e| e.to_string())?;
        let dec = guard(|| -> Result<_, String> {
            let cd = CredDef::from_json(&art["cred_def"])?;
            let sig: anoncreds_clsignatures::CredentialSignature = from_jv(&art["sig"])?;
            let values: anoncreds_clsignatures::CredentialValues = from_jv(&art["values"])?;
            let spr = make_request()?;
            let proof: anoncreds_clsignatures::Proof = from_jv(&art["proof"])?;
            let proof0: anoncreds_clsignatures::Proof = from_jv(&art["proof0"])?;
            let nonce = BigNumber::from_dec(art["nonce"].as_str().unwrap_or("")).map_err(|e| e.to_string())?;
            Ok((cd, sig, values, spr, proof, proof0, nonce))
        });
        let (cd, sig, values, spr, proof, proof0, nonce) = match dec {
            Out::Ok(x) => {
                push("decode", true, &name, String::new());
                x
            }
            o => {
                push("decode", false, &name, format!("{}: {}", o.tag(), o.msg()));
                continue;
            }
        };
        // serialisation is the same text under both builds
        let same = jv(&sig) == art["sig"] && jv(&values) == art["values"] && jv(&proof) == art["proof"]
            && cd.to_json()["pk"] == art["cred_def"]["pk"] && cd.to_json()["kcp"] == art["cred_def"]["kcp"];
        push("reserialize_identical", same, &name, String::new());
        // blind_credential_secrets checks the key correctness proof before anything else
        let r = guard(|| -> Result<(), String> {
            let hv = crate::fixtures::values_of(&std::collections::BTreeMap::new(), &bmap(&[("master_secret", "12345"), ("policy", "0")]))?;
            let n = anoncreds_clsignatures::new_nonce().map_err(|e| e.to_string())?;
            anoncreds_clsignatures::Prover::blind_credential_secrets(&cd.pk, &cd.kcp, &hv, &n).map(|_| ()).map_err(|e| e.to_string())
        });
        push("key_correctness_proof", r.is_ok(), &name, format!("{} {}", r.tag(), r.msg()));
        let r = guard(|| verify(&cd, &spr, &proof, &nonce));
        push("verify_foreign_proof", matches!(r, Out::Ok(true)), &name, format!("{:?}", r));
        let zero = BigNumber::from_dec("0").map_err(|e| e.to_string())?;
        let r = guard(|| verify(&cd, &spr, &proof0, &zero));
        push("verify_foreign_proof_zero_nonce", matches!(r, Out::Ok(true)), &name, format!("{:?}", r));
        let r = guard(|| -> Result<bool, String> {
            let n = anoncreds_clsignatures::new_nonce().map_err(|e| e.to_string())?;
            let p = prove(&cd, &sig, &values, &spr, &n)?;
            verify(&cd, &spr, &p, &n)
        });
        push("prove_with_foreign_credential", matches!(r, Out::Ok(true)), &name, format!("{:?}", r));
    }
    emit(&json!({"id": "bn_xchg/0", "op": "bn_xchg", "in": {"backend": backend(), "role": "consume", "other": other_backend()},
        "impl": {"results": results}, "class": {"role": "consume"}}));
    Ok(())
}

/// streams of this module
pub fn gen(stream: &str, thorough: bool, rng: &mut Rng) -> Option<Result<(), String>> {
    match stream {
        "bn" => Some(gen_bn(thorough, rng)),
        "bn_random" => Some(gen_bn_random(thorough, rng)),
        "bn_xchg_make" => Some(gen_xchg_make(thorough, rng)),
        "bn_xchg" => Some(gen_xchg(thorough, rng)),
        _ => None,
    }
}
