//! C17 / C18 — the public `anoncreds_clsignatures::bn::BigNumber` API (both back-ends), the
//! `bitwise_or_big_int` helper and the random/prime generators.
//!
//! Streams
//!   bn         one operation per case line: {"in": {"backend","op","args"}, "impl": {"status","val"}}
//!              (edge values crossed per arity + random operands of 1..4096 bits + malformed text)
//!   bn_random  contracts of the random / primality operations over many draws
//!   bn_xchg    artefact exchange between the two builds (files under /verif/work/xchg)
//!
//! The generator is a function of the seed only (never of the back-end or of a result), so
//! that the two builds produce the same case list and can be diffed line by line (C18).
use crate::rng::Rng;
use crate::util::*;
use anoncreds_clsignatures::bn::BigNumber;
use anoncreds_clsignatures::verif as vf;
use anoncreds_clsignatures::Error as ClError;
use serde_json::{json, Value};

pub fn backend() -> &'static str {
    if cfg!(feature = "ossl") {
        "openssl"
    } else {
        "rust"
    }
}

// ------------------------------------------------------------------ argument decoding

fn sarg(a: &[Value], i: usize) -> Result<String, String> {
    a.get(i).and_then(|v| v.as_str()).map(|s| s.to_string()).ok_or_else(|| format!("arg {} is not a string", i))
}

fn uarg(a: &[Value], i: usize) -> Result<u64, String> {
    let v = a.get(i).ok_or_else(|| format!("arg {} missing", i))?;
    if let Some(n) = v.as_u64() {
        return Ok(n);
    }
    v.as_str().and_then(|s| s.parse::<u64>().ok()).ok_or_else(|| format!("arg {} is not an unsigned number", i))
}

fn iarg(a: &[Value], i: usize) -> Result<i64, String> {
    let v = a.get(i).ok_or_else(|| format!("arg {} missing", i))?;
    if let Some(n) = v.as_i64() {
        return Ok(n);
    }
    v.as_str().and_then(|s| s.parse::<i64>().ok()).ok_or_else(|| format!("arg {} is not a number", i))
}

fn barg(a: &[Value], i: usize) -> Result<bool, String> {
    a.get(i).and_then(|v| v.as_bool()).ok_or_else(|| format!("arg {} is not a bool", i))
}

/// operand from its canonical decimal text; the harness refuses operands that do not read back
fn zarg(a: &[Value], i: usize) -> Result<BigNumber, String> {
    let s = sarg(a, i)?;
    let b = match guard(|| BigNumber::from_dec(&s)) {
        Out::Ok(b) => b,
        o => return Err(format!("operand {}: from_dec failed ({} {})", s, o.tag(), o.msg())),
    };
    let back = b.to_dec().map_err(|e| e.to_string())?;
    if back != s {
        return Err(format!("operand {} reads back as {}", s, back));
    }
    Ok(b)
}

fn zval(b: &BigNumber) -> Result<Value, ClError> {
    Ok(json!(b.to_dec()?))
}

// ------------------------------------------------------------------ one operation on the real code

/// runs `op` on the real crate; `Err` = harness problem (bad case line), never a library outcome
fn run_op(op: &str, a: &[Value]) -> Result<Out<Value>, String> {
    Ok(match op {
        // ---- text and bytes
        "from_dec" => {
            let s = sarg(a, 0)?;
            guard(|| zval(&BigNumber::from_dec(&s)?))
        }
        "from_hex" => {
            let s = sarg(a, 0)?;
            guard(|| zval(&BigNumber::from_hex(&s)?))
        }
        "from_bytes" => {
            let b = unhex(&sarg(a, 0)?).ok_or("bad hex")?;
            guard(|| zval(&BigNumber::from_bytes(&b)?))
        }
        "to_dec" => {
            let x = zarg(a, 0)?;
            guard(|| Ok::<_, ClError>(json!(x.to_dec()?)))
        }
        "to_hex" => {
            let x = zarg(a, 0)?;
            guard(|| Ok::<_, ClError>(json!(x.to_hex()?)))
        }
        "to_bytes" => {
            let x = zarg(a, 0)?;
            guard(|| Ok::<_, ClError>(json!(hex(&x.to_bytes()?))))
        }
        "from_u32" => {
            let n = uarg(a, 0)? as usize;
            guard(|| zval(&BigNumber::from_u32(n)?))
        }
        // ---- comparison
        "cmp" => {
            let (x, y) = (zarg(a, 0)?, zarg(a, 1)?);
            guard_inf(|| json!(match x.cmp(&y) {
                std::cmp::Ordering::Less => -1,
                std::cmp::Ordering::Equal => 0,
                std::cmp::Ordering::Greater => 1,
            }))
        }
        "eq" => {
            let (x, y) = (zarg(a, 0)?, zarg(a, 1)?);
            guard_inf(|| json!(x == y))
        }
        "is_negative" => {
            let x = zarg(a, 0)?;
            guard_inf(|| json!(x.is_negative()))
        }
        // ---- ring operations
        "add" => {
            let (x, y) = (zarg(a, 0)?, zarg(a, 1)?);
            guard(|| zval(&x.add(&y)?))
        }
        "sub" => {
            let (x, y) = (zarg(a, 0)?, zarg(a, 1)?);
            guard(|| zval(&x.sub(&y)?))
        }
        "mul" => {
            let (x, y) = (zarg(a, 0)?, zarg(a, 1)?);
            guard(|| zval(&x.mul(&y)?))
        }
        "sqr" => {
            let x = zarg(a, 0)?;
            guard(|| zval(&x.sqr()?))
        }
        "div" => {
            let (x, y) = (zarg(a, 0)?, zarg(a, 1)?);
            guard(|| zval(&x.div(&y)?))
        }
        "modulus" => {
            let (x, y) = (zarg(a, 0)?, zarg(a, 1)?);
            guard(|| zval(&x.modulus(&y)?))
        }
        "mod_mul" => {
            let (x, y, n) = (zarg(a, 0)?, zarg(a, 1)?, zarg(a, 2)?);
            guard(|| zval(&x.mod_mul(&y, &n)?))
        }
        "mod_sub" => {
            let (x, y, n) = (zarg(a, 0)?, zarg(a, 1)?, zarg(a, 2)?);
            guard(|| zval(&x.mod_sub(&y, &n)?))
        }
        "mod_div" => {
            let (x, y, n) = (zarg(a, 0)?, zarg(a, 1)?, zarg(a, 2)?);
            guard(|| zval(&x.mod_div(&y, &n)?))
        }
        "exp" => {
            let (x, y) = (zarg(a, 0)?, zarg(a, 1)?);
            guard(|| zval(&x.exp(&y)?))
        }
        "mod_exp" => {
            let (x, y, n) = (zarg(a, 0)?, zarg(a, 1)?, zarg(a, 2)?);
            guard(|| zval(&x.mod_exp(&y, &n)?))
        }
        "inverse" => {
            let (x, n) = (zarg(a, 0)?, zarg(a, 1)?);
            guard(|| zval(&x.inverse(&n)?))
        }
        "gcd" => {
            let (x, y) = (zarg(a, 0)?, zarg(a, 1)?);
            guard(|| zval(&BigNumber::gcd(&x, &y)?))
        }
        // ---- shifts and bits
        "lshift1" => {
            let x = zarg(a, 0)?;
            guard(|| zval(&x.lshift1()?))
        }
        "rshift1" => {
            let x = zarg(a, 0)?;
            guard(|| zval(&x.rshift1()?))
        }
        "rshift" => {
            let (x, n) = (zarg(a, 0)?, uarg(a, 1)? as u32);
            guard(|| zval(&x.rshift(n)?))
        }
        "num_bits" => {
            let x = zarg(a, 0)?;
            guard(|| Ok::<_, ClError>(json!(x.num_bits()?)))
        }
        "is_bit_set" => {
            let (x, n) = (zarg(a, 0)?, iarg(a, 1)? as i32);
            guard(|| Ok::<_, ClError>(json!(x.is_bit_set(n)?)))
        }
        "set_bit" => {
            let (mut x, n) = (zarg(a, 0)?, iarg(a, 1)? as i32);
            guard(|| {
                x.set_bit(n)?;
                zval(&x)
            })
        }
        // ---- word operations (mutating)
        "add_word" => {
            let (mut x, w) = (zarg(a, 0)?, uarg(a, 1)? as u32);
            guard(|| {
                x.add_word(w)?;
                zval(&x)
            })
        }
        "sub_word" => {
            let (mut x, w) = (zarg(a, 0)?, uarg(a, 1)? as u32);
            guard(|| {
                x.sub_word(w)?;
                zval(&x)
            })
        }
        "mul_word" => {
            let (mut x, w) = (zarg(a, 0)?, uarg(a, 1)? as u32);
            guard(|| {
                x.mul_word(w)?;
                zval(&x)
            })
        }
        "div_word" => {
            let (mut x, w) = (zarg(a, 0)?, uarg(a, 1)? as u32);
            guard(|| {
                x.div_word(w)?;
                zval(&x)
            })
        }
        "increment" => {
            let x = zarg(a, 0)?;
            guard(|| zval(&x.increment()?))
        }
        "decrement" => {
            let x = zarg(a, 0)?;
            guard(|| zval(&x.decrement()?))
        }
        "set_negative" => {
            let (x, n) = (zarg(a, 0)?, barg(a, 1)?);
            guard(|| zval(&x.set_negative(n)?))
        }
        // ---- helpers built on the API
        "bitwise_or" => {
            let (x, y) = (zarg(a, 0)?, zarg(a, 1)?);
            guard(|| zval(&vf::bitwise_or_big_int(&x, &y)?))
        }
        "semiprime" => {
            let (g, p, q, n) = (zarg(a, 0)?, zarg(a, 1)?, zarg(a, 2)?, zarg(a, 3)?);
            guard(|| Ok::<_, ClError>(json!(g.generates_semiprime_subgroup(&p, &q, &n)?)))
        }
        _ => return Err(format!("unknown bn op {}", op)),
    })
}

fn trunc(s: String) -> String {
    if s.len() > 120 {
        s.chars().take(120).collect()
    } else {
        s
    }
}

pub fn apply(op: &str, a: &[Value]) -> Value {
    match run_op(op, a) {
        Ok(Out::Ok(v)) => json!({"status": "ok", "val": v}),
        Ok(Out::Err(m)) => json!({"status": "err", "val": Value::Null, "msg": trunc(m)}),
        Ok(Out::Panic(m)) => json!({"status": "panic", "val": Value::Null, "msg": trunc(m)}),
        Err(e) => json!({"status": "harness", "val": Value::Null, "msg": e}),
    }
}

/// `clh exec` op `bn_op` (replays and probes): in = {"op": .., "args": [..]}
pub fn exec(op: &str, inp: &Value) -> Option<Result<Value, String>> {
    if op != "bn_op" {
        return None;
    }
    let o = inp["op"].as_str().unwrap_or("");
    let empty = vec![];
    let args = inp["args"].as_array().unwrap_or(&empty);
    Some(Ok(json!({"backend": backend(), "impl": apply(o, args)})))
}

/// streams of this module
pub fn gen(stream: &str, thorough: bool, rng: &mut Rng) -> Option<Result<(), String>> {
    let _ = (thorough, rng);
    match stream {
        _ => None,
    }
}
