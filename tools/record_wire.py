#!/usr/bin/env python3
"""Record the serde wire layout of every serialisable type of /repo/src/types.rs as a flat list
of strings `Type.field:kind[:skip]` (Lean list literal on stdout).

Used ONCE to produce `CL.Wire.recorded` in lean/CLModel/Model/Wire.lean (the frozen table the
theorem `wire_tables_frozen` compares the hand-written layout table with); re-run it against a
release to see whether the wire format moved:  tools/record_wire.py [--repo /repo] [--check]
(`--check` compares with the list stored in Wire.lean and exits 1 on a difference).
"""
import re, sys, os

PRIM = {"BigNumber": "bn", "GroupOrderElement": "sc", "PointG1": "g1", "PointG2": "g2", "PointG2Inf": "g2inf",
        "Pair": "pair", "u32": "u32", "i32": "i32", "String": "str", "Nonce": "bn"}


def kind(t):
    t = re.sub(r"/\*.*?\*/", "", t).strip().rstrip(",").strip()
    if t in PRIM:
        return PRIM[t]
    m = re.match(r"Option<(.*)>$", t)
    if m:
        return "opt(%s)" % kind(m.group(1))
    if t == "Vec<u8>":
        return "u8vec"
    m = re.match(r"Vec<\((String), (BigNumber)\)>$", t)
    if m:
        return "vec(pairStrBn)"
    m = re.match(r"Vec<(.*)>$", t)
    if m:
        return "vec(%s)" % kind(m.group(1))
    if t in ("BTreeSet<String>", "HashSet<String>"):
        return "setStr"
    if t in ("BTreeSet<u32>", "HashSet<u32>"):
        return "setU32"
    m = re.match(r"BTreeSet<(.*)>$", t)
    if m:
        return "vec(%s)" % kind(m.group(1))
    m = re.match(r"(?:BTreeMap|HashMap)<String\s*,\s*(.*)>$", t)
    if m:
        return "mapStr(%s)" % kind(m.group(1))
    return "ref(%s)" % t


def camel(s):
    p = s.split("_")
    return p[0] + "".join(x.capitalize() for x in p[1:])


def record(src):
    src = re.sub(r"//[^\n]*", "", src)
    src = src.split("#[cfg(test)]\nmod tests")[0]
    out = []
    # items preceded by a serde derive (cfg_attr(feature = "serde", derive(...)))
    for m in re.finditer(r"((?:\s*#\[[^\]]*\]\s*)+)pub (struct|enum) (\w+)\s*(\{|\()", src):
        attrs, what, name = m.group(1), m.group(2), m.group(3)
        if "Serialize" not in attrs and "Deserialize" not in attrs:
            continue
        ser = "Serialize" in attrs.replace("Deserialize", "") or re.search(r"impl Serialize for %s \{" % name, src) is not None
        start = m.end()
        if m.group(4) == "(":
            inner = src[start:src.index(")", start)]
            if "transparent" in attrs:
                out.append("%s:transparent:%s" % (name, kind(inner.replace("pub ", ""))))
            continue
        depth, i = 1, start
        while depth:
            depth += {"{": 1, "}": -1}.get(src[i], 0)
            i += 1
        body = src[start:i - 1]
        rename_all = "camelCase" in attrs
        if what == "enum":
            for v in re.finditer(r"(\w+)\s*(\{([^}]*)\})?\s*,", body):
                if v.group(2):
                    for f in re.finditer(r"(\w+)\s*:\s*([^,\n]+)", v.group(3)):
                        out.append("%s.%s.%s:%s" % (name, v.group(1), f.group(1), kind(f.group(2))))
                else:
                    out.append("%s.%s:unit" % (name, v.group(1)))
            continue
        for f in re.finditer(r"((?:\s*#\[(?:[^\[\]]|\[[^\]]*\])*\]\s*)*)\s*(?:pub(?:\(crate\))?\s+)?(\w+)\s*:\s*([^\n]+?),?\s*\n", body + "\n"):
            fattrs, fname, ftype = f.group(1), f.group(2), f.group(3)
            wire = camel(fname) if rename_all else fname
            r = re.search(r'rename\s*=\s*"(\w+)"', fattrs)
            if r:
                wire = r.group(1)
            s = "%s.%s:%s" % (name, wire, kind(ftype))
            if "Option::is_none" in fattrs:
                s += ":skipIfNone"
            if "is_empty" in fattrs:
                s += ":skipIfEmpty"
            if re.search(r"serde\(default\)", fattrs):
                s += ":default"
            if not ser:
                s += ":deonly"
            out.append(s)
        # a hand-written Serialize impl: fields it may leave out (`skip_field`) are omitted in
        # human-readable formats only
        hw = re.search(r"impl Serialize for %s \{(.*?)\n\}\n" % name, src, re.S)
        if hw:
            for w in re.findall(r'skip_field\("(\w+)"\)', hw.group(1)):
                for k, e in enumerate(out):
                    if e.startswith("%s.%s:" % (name, w)):
                        parts = e.split(":")
                        flag = "skipIfNone" if parts[1].startswith("opt(") else "skipIfEmpty"
                        out[k] = ":".join(parts[:2] + [flag, "hrOnly"] + parts[2:])
    # the two hand-written Deserialize impls: legacy fields of the V1 helper structs
    for helper, legacy in (("CredentialPrimaryPublicKeyV1", "rms"), ("PrimaryEqualProofV1", "m1")):
        m = re.search(r"struct %s \{(.*?)\n        \}" % helper, src, re.S)
        if m and re.search(r"#\[serde\(default\)\]\s*%s: BigNumber" % legacy, m.group(1)):
            # the legacy field must be the LAST slot of the helper (positional formats)
            last = re.findall(r"(\w+): [\w<>, /*]+,?\s*$", m.group(1).strip(), re.M)[-1]
            out.append("%s.%s:legacy(master_secret)%s" % (helper[:-2], legacy, ":last" if last == legacy else ""))
    return out


def tokens(entry):
    return [t for t in re.split(r"[.:()]", entry) if t]


def main():
    repo = "/repo"
    if "--repo" in sys.argv:
        repo = sys.argv[sys.argv.index("--repo") + 1]
    rec = record(open(os.path.join(repo, "src", "types.rs")).read())
    if "--check" in sys.argv:
        wire = open(os.path.join(os.path.dirname(os.path.abspath(__file__)), "..", "lean", "CLModel", "Model", "Wire.lean")).read()
        m = re.search(r"def recorded : List \(List String\) :=\s*\[(.*?)\]\]\n", wire, re.S)
        stored = [re.findall(r'"([^"]*)"', row) for row in (m.group(1) + "]").split("],")] if m else []
        stored = [" ".join(r) for r in stored]
        rec = [" ".join(tokens(x)) for x in rec]
        if stored != rec:
            print("wire layout differs from the recorded table:")
            for x in sorted(set(stored) ^ set(rec)):
                print(("  only recorded: " if x in stored else "  only in source: ") + x)
            sys.exit(1)
        print("wire layout equals the recorded table (%d entries)" % len(rec))
        return
    print("[" + ",\n   ".join("[" + ", ".join('"%s"' % t for t in tokens(x)) + "]" for x in rec) + "]")


if __name__ == "__main__":
    main()
