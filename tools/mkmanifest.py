#!/usr/bin/env python3
"""Regenerates MANIFEST.json from verifpy/props.py (claimed properties) and properties.jsonl."""
import json, os, subprocess, sys
V = os.path.dirname(os.path.dirname(os.path.abspath(__file__)))
sys.path.insert(0, V)
from verifpy.props import PROPS

all_ids = [json.loads(l)["id"] for l in open(os.path.join(V, "properties.jsonl"))]
try:
    commits = subprocess.run(["git", "-C", "/repo", "log", "--format=%H %s"], capture_output=True, text=True).stdout.strip().split("\n")
    hook_commits = [c.split()[0] for c in commits if c.split(" ", 1)[1].startswith("verif hooks")]
except Exception:
    hook_commits = []
checks = []
for pid in all_ids:
    if pid not in PROPS or not PROPS[pid].get("claimed", True):
        continue
    s = PROPS[pid]
    checks.append({
        "property_id": pid,
        "quick_cmd": "./check %s --tier quick" % pid,
        "thorough_cmd": "./check %s --tier thorough" % pid,
        "evidence_file": "/verif/evidence/%s.json" % pid,
        "replay_cmd_template": "./check %s --replay {path}" % pid,
        "engine": "lean4-proof+correspondence",
        "level_claimed": {"category": "proof", "text": s["level_text"], "design_ref": "DESIGN.md §4 " + pid},
        "level_note": s["level_note"],
        "technique": s.get("technique", "Lean 4 theorems over a model regenerated/validated against the Rust code (translator + differential correspondence)"),
    })
na = [{"property_id": pid, "reason": PROPS.get(pid, {}).get("na_reason", "check not built yet in this session (framework under construction); planned per DESIGN.md §4")}
      for pid in all_ids if pid not in PROPS or not PROPS[pid].get("claimed", True)]
m = {
    "version": 1,
    "setup_cmd": "./setup.sh",
    "hooks": {
        "guard": "cargo feature `verif` of anoncreds-clsignatures",
        "enable": "harness/Cargo.toml depends on /repo with features [serde, verif] (+ openssl_bn for the OpenSSL variants)",
        "baseline_off_cmd": "cd /repo && cargo test --workspace --no-fail-fast --offline",
        "source_commits": hook_commits,
        "add_only": True,
    },
    "engines": [
        {"name": "lean4-proof+correspondence", "path": "/verif/lean, /verif/harness, /verif/tools/translate.py, /verif/check",
         "serves_properties": [c["property_id"] for c in checks],
         "kind_free_text": "Lean 4 (Mathlib) theorems about an executable model; model tied to /repo by a micro-translator (Gen/*.lean regenerated every run) and by a differential correspondence check (Rust harness calling the real crate in-process vs the compiled Lean driver)"},
    ],
    "checks": checks,
    "not_applicable": na,
    "notes": "See DESIGN.md. Every check: translate -> lake build of the property's theorem module -> #print axioms audit -> harness build against /repo's working tree -> correspondence streams + property oracles -> evidence. known_findings.json lists recorded findings.",
}
json.dump(m, open(os.path.join(V, "MANIFEST.json"), "w"), indent=1)
print("claimed:", [c["property_id"] for c in checks], "not claimed:", len(na))
