#!/usr/bin/env python3
"""Micro-translator: /repo/src/*.rs  ->  /verif/lean/CLModel/Gen/*.lean

Extracts the closed-form, arithmetic and tabular parts of the Rust source into Lean
definitions over the small DSLs of CLModel/Model/Basic.lean (IExpr / BExpr / MergeStmt).
Anything that cannot be parsed is emitted as `.unrecognised`, which makes the dependent
theorem fail (an obligation is then reported as broken by `check`).

Usage: translate.py [--repo /repo] [--out /verif/lean/CLModel/Gen] [--json report.json]
Files are only rewritten when their content changes (keeps lake's cache warm).
"""
import argparse, hashlib, json, os, re, sys

# ------------------------------------------------------------------ source helpers

def strip_comments(src: str) -> str:
    out = []
    i, n = 0, len(src)
    while i < n:
        c = src[i]
        if src.startswith("//", i):
            j = src.find("\n", i)
            i = n if j < 0 else j
        elif src.startswith("/*", i):
            depth, i = 1, i + 2
            while i < n and depth:
                if src.startswith("/*", i):
                    depth += 1; i += 2
                elif src.startswith("*/", i):
                    depth -= 1; i += 2
                else:
                    i += 1
        elif c == '"':
            j = i + 1
            while j < n and src[j] != '"':
                j += 2 if src[j] == "\\" else 1
            out.append(src[i:j + 1]); i = j + 1
        elif c == "'" and i + 2 < n and (src[i + 2] == "'" or (src[i + 1] == "\\" and i + 3 < n and src[i + 3] == "'")):
            j = src.find("'", i + 2)
            out.append(src[i:j + 1]); i = j + 1
        else:
            out.append(c); i += 1
    return "".join(out)


def balanced(src: str, open_idx: int, o="{", c="}") -> int:
    """index just after the bracket matching src[open_idx]"""
    depth = 0
    i = open_idx
    while i < len(src):
        ch = src[i]
        if ch == '"':
            j = i + 1
            while j < len(src) and src[j] != '"':
                j += 2 if src[j] == "\\" else 1
            i = j + 1
            continue
        if ch == o:
            depth += 1
        elif ch == c:
            depth -= 1
            if depth == 0:
                return i + 1
        i += 1
    raise ValueError("unbalanced")


def find_fn(src: str, name: str, within: str = None):
    """return (signature, body) of `fn name` (optionally inside `impl within`)"""
    scope = src
    if within is not None:
        m = re.search(r"\bimpl\b[^{;]*\b" + re.escape(within) + r"\b[^{;]*\{", src)
        found = None
        for m in re.finditer(r"\bimpl\b[^{;]*\b" + re.escape(within) + r"\b[^{;]*\{", src):
            end = balanced(src, m.end() - 1)
            block = src[m.end() - 1:end]
            if re.search(r"\bfn\s+" + re.escape(name) + r"\b", block):
                found = block
                break
        if found is None:
            return None
        scope = found
    m = re.search(r"\bfn\s+" + re.escape(name) + r"\b", scope)
    if not m:
        return None
    brace = scope.find("{", m.end())
    # skip where-clauses / generics: first '{' after the closing ')' of the params
    paren = scope.find("(", m.end())
    pend = balanced(scope, paren, "(", ")")
    brace = scope.find("{", pend)
    end = balanced(scope, brace)
    return scope[m.start():brace], scope[brace + 1:end - 1]


# ------------------------------------------------------------------ expression parser

TOK = re.compile(r"\s*(?:(\d[\d_]*)(?:_?(?:u32|i32|i64|usize|u64|isize))?|([A-Za-z_][A-Za-z_0-9]*(?:(?:::|\.)[A-Za-z_][A-Za-z_0-9]*)*)|(\|\||&&|==|!=|<=|>=|[-+*/()<>!&,]))")

class ParseError(Exception):
    pass

def tokenize(s):
    toks, i = [], 0
    s = s.strip()
    while i < len(s):
        m = TOK.match(s, i)
        if not m or m.end() == i:
            raise ParseError("bad token at %r" % s[i:i + 20])
        if m.group(1) is not None:
            toks.append(("num", int(m.group(1).replace("_", ""))))
        elif m.group(2) is not None:
            toks.append(("id", m.group(2)))
        else:
            toks.append(("op", m.group(3)))
        i = m.end()
    return toks

WIDTH = {"i32": 32, "u32": 32, "i64": 64, "usize": 64}

class Parser:
    """Pratt parser producing ('lean term', rust type or None for literals)."""
    def __init__(self, toks, env):
        self.t, self.i, self.env = toks, 0, env   # env: name -> (index, type)

    def peek(self):
        return self.t[self.i] if self.i < len(self.t) else (None, None)

    def eat(self, kind=None, val=None):
        k, v = self.peek()
        if k is None or (kind and k != kind) or (val is not None and v != val):
            raise ParseError("expected %s %s got %s %s" % (kind, val, k, v))
        self.i += 1
        return v

    # ---- boolean level
    def bexpr(self):
        l = self.band()
        while self.peek() == ("op", "||"):
            self.eat(); r = self.band(); l = "(.or %s %s)" % (l, r)
        return l

    def band(self):
        l = self.bnot()
        while self.peek() == ("op", "&&"):
            self.eat(); r = self.bnot(); l = "(.and %s %s)" % (l, r)
        return l

    def bnot(self):
        if self.peek() == ("op", "!"):
            self.eat(); return "(.not %s)" % self.bnot()
        # parenthesised boolean?
        save = self.i
        if self.peek() == ("op", "("):
            try:
                self.eat(); b = self.bexpr(); self.eat("op", ")")
                if self.peek()[1] not in ("==", "!=", "<", "<=", ">", ">=", "+", "-", "*", "/"):
                    return b
            except ParseError:
                pass
            self.i = save
        a, ta = self.arith()
        k, v = self.peek()
        cmpmap = {"==": "eq", "!=": "ne", "<": "lt", "<=": "le", ">": "gt", ">=": "ge"}
        if k != "op" or v not in cmpmap:
            raise ParseError("comparison expected")
        self.eat()
        b, tb = self.arith()
        if ta and tb and ta != tb:
            raise ParseError("comparison of different types")
        return "(.%s %s %s)" % (cmpmap[v], a, b)

    # ---- arithmetic level
    def arith(self):
        l, tl = self.term()
        while self.peek()[0] == "op" and self.peek()[1] in "+-":
            op = self.eat()
            r, tr = self.term()
            l, tl = self.binop("add" if op == "+" else "sub", l, tl, r, tr)
        return l, tl

    def term(self):
        l, tl = self.cast()
        while self.peek()[0] == "op" and self.peek()[1] in "*/":
            op = self.eat()
            r, tr = self.cast()
            l, tl = self.binop("mul" if op == "*" else "div", l, tl, r, tr)
        return l, tl

    def cast(self):
        l, tl = self.atom()
        while self.peek() == ("id", "as"):
            self.eat()
            ty = self.eat("id")
            if ty not in WIDTH:
                raise ParseError("cast to " + ty)
            l, tl = "(.cast .%s %s)" % (ty, l), ty
        return l, tl

    def binop(self, name, l, tl, r, tr):
        t = tl or tr
        if tl and tr and tl != tr:
            raise ParseError("mixed types %s %s" % (tl, tr))
        if t is None:
            raise ParseError("untyped arithmetic")
        return "(.%s .%s %s %s)" % (name, t, l, r), t

    def atom(self):
        k, v = self.peek()
        if k == "num":
            self.eat(); return "(.lit %d)" % v, None
        if k == "op" and v == "(":
            self.eat(); e = self.arith(); self.eat("op", ")"); return e
        if k == "op" and v == "-":
            self.eat(); e, t = self.atom()
            m = re.fullmatch(r"\(\.lit (\d+)\)", e)
            if m:
                return "(.lit (-%s))" % m.group(1), t
            raise ParseError("unary minus")
        if k == "op" and v == "&":
            self.eat(); return self.atom()
        if k == "id":
            self.eat()
            m = re.fullmatch(r"(i32|u32|i64|usize)::from", v)
            if m:
                self.eat("op", "("); e, t = self.arith(); self.eat("op", ")")
                ty = m.group(1)
                if t is not None and WIDTH[t] > WIDTH[ty]:
                    raise ParseError("narrowing from")
                return "(.cast .%s %s)" % (ty, e), ty
            if v in self.env:
                idx, ty = self.env[v]
                return "(.var %d)" % idx, ty
            raise ParseError("unknown identifier " + v)
        raise ParseError("unexpected %s %s" % (k, v))


def parse_iexpr(text, env):
    try:
        p = Parser(tokenize(text), env)
        e, _ = p.arith()
        if p.i != len(p.t):
            raise ParseError("trailing tokens")
        return e
    except (ParseError, ValueError) as ex:
        return ".unrecognised /- %s -/" % str(ex).replace("-/", "")


def parse_bexpr(text, env):
    try:
        p = Parser(tokenize(text), env)
        e = p.bexpr()
        if p.i != len(p.t):
            raise ParseError("trailing tokens")
        return e
    except (ParseError, ValueError) as ex:
        return ".unrecognised /- %s -/" % str(ex).replace("-/", "")


# ------------------------------------------------------------------ extractions

HEADER = "/- GENERATED by tools/translate.py from %s — do not edit -/\nimport CLModel.Model.Basic\nnamespace CL.Gen\n\n"
FOOTER = "\nend CL.Gen\n"


def gen_constants(repo):
    src = strip_comments(open(os.path.join(repo, "src/constants.rs")).read())
    names = ["LARGE_LINK_SECRET", "LARGE_E_START", "LARGE_E_END_RANGE", "LARGE_PRIME", "LARGE_VPRIME",
             "LARGE_VPRIME_PRIME", "LARGE_MVECT", "LARGE_ETILDE", "LARGE_VTILDE", "LARGE_UTILDE",
             "LARGE_MTILDE", "LARGE_M2TILDE", "LARGE_VPRIME_TILDE", "LARGE_RTILDE", "ITERATION",
             "LARGE_NONCE", "LARGE_ALPHATILDE"]
    vals = {}
    for m in re.finditer(r"pub\s+const\s+([A-Z_0-9]+)\s*:\s*usize\s*=\s*([^;]+);", src):
        vals[m.group(1)] = m.group(2).strip()
    out = [HEADER % "src/constants.rs"]

    def const_expr(txt):
        txt = txt.replace("_", "") if re.fullmatch(r"[\d_]+", txt) else txt
        if re.fullmatch(r"\d+", txt):
            return txt
        # simple arithmetic over other constants
        if re.fullmatch(r"[A-Z_0-9+\-* ()]+", txt):
            return re.sub(r"\s+", " ", txt)
        return None

    for n in names:
        e = const_expr(vals[n]) if n in vals else None
        if e is None:
            out.append("/-- not found / not a literal in constants.rs -/\ndef %s : Option Nat := none\n" % n)
        else:
            out.append("def %s : Nat := %s\n" % (n, e))
    # the two derived big values: 2^(arg)
    for cname, lname in (("LARGE_E_START_VALUE", "largeEStartValueExp"), ("LARGE_VPRIME_PRIME_VALUE", "largeVPrimePrimeValueExp")):
        m = re.search(cname + r"\s*:\s*Lazy<BigNumber>\s*=\s*Lazy::new\(\|\|\s*\{?\s*BIGNUMBER_2\s*\.exp\(\s*&BigNumber::from_u32\(([^)]*)\)", src)
        e = const_expr(m.group(1).strip()) if m else None
        if e is None:
            out.append("def %s : Option Nat := none\n" % lname)
        else:
            out.append("/-- `%s = 2 ^ %s` -/\ndef %s : Nat := %s\n" % (cname, lname, lname, e))
    out.append(FOOTER)
    return "".join(out)


PT = ["GE", "LE", "GT", "LT"]


def gen_predicate(repo):
    src = strip_comments(open(os.path.join(repo, "src/types.rs")).read())
    out = [HEADER % "src/types.rs (impl Predicate)"]
    # ---- delta used by the prover: prefer a crate-private wide variant if the prover calls it
    prover = strip_comments(open(os.path.join(repo, "src/prover.rs")).read())
    m = re.search(r"predicate\s*\.\s*(get_delta\w*)\s*\(\s*attr_value\s*\)", prover)
    delta_fn = m.group(1) if m else "get_delta"
    out.append("/-- the delta function `_init_ne_proof` calls -/\ndef deltaFnName : String := \"%s\"\n\n" % delta_fn)

    def arms(fn_name, env, inner=None):
        res = {}
        f = find_fn(src, fn_name, "Predicate")
        ret = None
        if f:
            sig, body = f
            mret = re.search(r"->\s*([A-Za-z0-9_<>]+)", sig)
            ret = mret.group(1) if mret else None
            for pt in PT:
                mm = re.search(r"PredicateType::" + pt + r"\s*=>\s*([^,]+?),\s*(?=PredicateType::|\})", body + "}")
                if mm:
                    txt = mm.group(1).strip()
                    if inner:
                        mi = re.fullmatch(inner, txt, re.S)
                        txt = mi.group(1) if mi else None
                    res[pt] = parse_iexpr(txt, env) if txt is not None else ".unrecognised"
        return ret, res

    env = {"attr_value": (0, "i32"), "self.value": (1, "i32")}
    ret, a = arms(delta_fn, env)
    out.append("/-- result type of `%s` -/\ndef deltaRetTy : Option IntTy := %s\n\n" % (delta_fn, "some .%s" % ret if ret in WIDTH else "none"))
    out.append("/-- `Predicate::%s(attr_value)`; vars: 0 = attr_value, 1 = self.value -/\ndef getDeltaArm : PType → IExpr\n" % delta_fn)
    for pt in PT:
        out.append("  | .%s => %s\n" % (pt, a.get(pt, ".unrecognised")))
    # ---- delta prime: argument of `.to_string()` inside BigNumber::from_dec(&( .. ).to_string())
    inner = r"BigNumber::from_dec\(\s*&\s*\(?\s*(.*?)\s*\)?\s*\.to_string\(\)\s*\)"
    ret2, b = arms("get_delta_prime", {"self.value": (1, "i32")}, inner)
    out.append("\n/-- `Predicate::get_delta_prime()`: the integer that is printed; var 1 = self.value -/\ndef getDeltaPrimeArm : PType → IExpr\n")
    for pt in PT:
        out.append("  | .%s => %s\n" % (pt, b.get(pt, ".unrecognised")))
    # ---- is_less
    f = find_fn(src, "is_less", "Predicate")
    less = {}
    if f:
        for mm in re.finditer(r"((?:PredicateType::\w+\s*\|?\s*)+)=>\s*(true|false)", f[1]):
            for pt in re.findall(r"PredicateType::(\w+)", mm.group(1)):
                less[pt] = mm.group(2)
    out.append("\n/-- `Predicate::is_less()` -/\ndef isLess : PType → Option Bool\n")
    for pt in PT:
        out.append("  | .%s => %s\n" % (pt, "some " + less[pt] if pt in less else "none"))
    # ---- the prover's refusal test and the argument type of four_squares
    m = re.search(r"if\s+delta\s*<\s*0\s*\{\s*return\s+Err", prover)
    out.append("\n/-- `_init_ne_proof` refuses when `delta < 0` -/\ndef proverRefusesNegativeDelta : Bool := %s\n" % ("true" if m else "false"))
    helpers = strip_comments(open(os.path.join(repo, "src/helpers.rs")).read())
    m = re.search(r"pub\s+fn\s+four_squares\s*\(\s*delta\s*:\s*(\w+)\s*\)", helpers)
    out.append("\n/-- parameter type of `four_squares` -/\ndef fourSquaresArgTy : Option IntTy := %s\n" % ("some .%s" % m.group(1) if m and m.group(1) in WIDTH else "none"))
    # how the attribute value is parsed
    m = re.search(r"\.parse::<(\w+)>\(\)", prover)
    out.append("\n/-- `_init_ne_proof` parses the attribute value as this type -/\ndef attrParseTy : Option IntTy := %s\n" % ("some .%s" % m.group(1) if m and m.group(1) in WIDTH else "none"))
    out.append(FOOTER)
    return "".join(out)


def first_guard(body, env):
    """first `if <cond> { return Err` in a body"""
    m = re.search(r"\bif\s+([^{}]+?)\s*\{\s*return\s+Err", body, re.S)
    if not m:
        return ".absent"
    return parse_bexpr(m.group(1), env)


def gen_index(repo):
    issuer = strip_comments(open(os.path.join(repo, "src/issuer.rs")).read())
    types = strip_comments(open(os.path.join(repo, "src/types.rs")).read())
    out = [HEADER % "src/issuer.rs, src/types.rs (u32 index arithmetic and range guards)"]
    u = "u32"
    # _get_index
    f = find_fn(issuer, "_get_index")
    e = parse_iexpr(f[1].strip().rstrip(";"), {"max_cred_num": (0, u), "rev_idx": (1, u)}) if f else ".unrecognised"
    out.append("/-- `Issuer::_get_index`; vars: 0 = max_cred_num, 1 = rev_idx -/\ndef getIndexExpr : IExpr := %s\n\n" % e)
    # witness index expressions + guards
    envw = {"max_cred_num": (0, u), "j": (1, u), "rev_idx": (2, u)}
    envg = {"max_cred_num": (0, u), "rev_idx": (1, u)}
    envj = {"max_cred_num": (0, u), "j": (1, u)}
    for fn, nm in (("new", "New"), ("update", "Update")):
        f = find_fn(types, fn, "Witness")
        e, g, gj = ".unrecognised", ".unrecognised", ".unrecognised"
        if f:
            m = re.search(r"let\s+index\s*=\s*([^;]+);", f[1])
            if m:
                e = parse_iexpr(m.group(1), envw)
            g = first_guard(f[1], envg)
            # guard on the loop variable j inside the loop body (before the index computation)
            ml = re.search(r"\bfor\b[^{]*\{(.*?)let\s+index\s*=", f[1], re.S)
            gj = ".absent"
            if ml:
                mg = re.search(r"\bif\s+([^{}]+?)\s*\{\s*return\s+Err", ml.group(1), re.S)
                if mg:
                    gj = parse_bexpr(mg.group(1), envj)
        out.append("/-- tail index in `Witness::%s`; vars: 0 = max_cred_num, 1 = j, 2 = rev_idx -/\ndef witness%sIndexExpr : IExpr := %s\n" % (fn, nm, e))
        out.append("/-- entry guard of `Witness::%s` (true = reject); vars: 0 = max_cred_num, 1 = rev_idx -/\ndef witness%sGuard : BExpr := %s\n" % (fn, nm, g))
        out.append("/-- per-index guard inside the loop of `Witness::%s`; vars: 0 = max_cred_num, 1 = j -/\ndef witness%sLoopGuard : BExpr := %s\n\n" % (fn, nm, gj))
    # guards of the issuer
    f = find_fn(issuer, "_update_revocation_accumulator")
    g = ".unrecognised"
    if f:
        ml = re.search(r"\bfor\b[^{]*\{(.*)", f[1], re.S)
        g = ".absent"
        if ml:
            mg = re.search(r"\bif\s+([^{}]+?)\s*\{\s*return\s+Err", ml.group(1), re.S)
            if mg:
                g = parse_bexpr(mg.group(1), envg)
    out.append("/-- per-index guard in `Issuer::_update_revocation_accumulator` -/\ndef updateAccGuard : BExpr := %s\n" % g)
    f = find_fn(issuer, "_new_non_revocation_credential")
    out.append("/-- entry guard of `Issuer::_new_non_revocation_credential` -/\ndef issueGuard : BExpr := %s\n\n" % (first_guard(f[1], envg) if f else ".unrecognised"))
    # tails generator
    f = find_fn(types, "new", "RevocationTailsGenerator")
    e = ".unrecognised"
    if f:
        m = re.search(r"\bsize\s*:\s*([^,]+),", f[1])
        if m:
            e = parse_iexpr(m.group(1), {"max_cred_num": (0, u)})
    out.append("/-- `size` in `RevocationTailsGenerator::new`; var 0 = max_cred_num -/\ndef tailsSizeExpr : IExpr := %s\n" % e)
    f = find_fn(types, "try_next", "RevocationTailsGenerator")
    e = ".unrecognised"
    if f:
        m = re.search(r"if\s+self\.current_index\s*==\s*(.+?)\s*\{", f[1], re.S)
        if m:
            e = parse_iexpr(m.group(1), {"self.size": (0, u)})
    out.append("/-- suppressed position in `try_next`; var 0 = self.size -/\ndef suppressedIndexExpr : IExpr := %s\n" % e)
    # does for_issued mirror its indices through _get_index?
    f = find_fn(types, "for_issued", "RevocationRegistry")
    mirrored = bool(f and re.search(r"max_cred_num\s*\+\s*1\s*-|_get_index", f[1]))
    out.append("\n/-- `RevocationRegistry::for_issued` maps each index `j` to tail position `L+1-j` -/\ndef forIssuedMirrors : Bool := %s\n" % ("true" if mirrored else "false"))
    out.append(FOOTER)
    return "".join(out)


def gen_merge(repo):
    types = strip_comments(open(os.path.join(repo, "src/types.rs")).read())
    out = [HEADER % "src/types.rs (RevocationRegistryDelta::merge)"]
    f = find_fn(types, "merge", "RevocationRegistryDelta")
    stmts = []
    ok_head = False
    if f:
        body = f[1]
        # header: the consecutive check and the accum assignment
        ok_head = bool(re.search(r"other_delta\.prev_accum\.is_none\(\)\s*\|\|\s*self\.accum\s*!=\s*other_delta\.prev_accum\.unwrap\(\)", body)) \
            and bool(re.search(r"self\.accum\s*=\s*other_delta\.accum\s*;", body))
        fld = {"self.issued": ".selfIssued", "self.revoked": ".selfRevoked",
               "other_delta.issued": ".otherIssued", "other_delta.revoked": ".otherRevoked"}
        pos = body.find("self.accum = other_delta.accum")
        rest = body[pos:] if pos >= 0 else body
        rest = rest[rest.find(";") + 1:]
        # statement scanner
        i = 0
        pat_ext = re.compile(r"\s*(self\.\w+)\s*\.extend\(\s*(\w+\.\w+)\s*\.difference\(\s*&\s*(\w+\.\w+)\s*\)\s*\)\s*;", re.S)
        pat_for = re.compile(r"\s*for\s+(\w+)\s+in\s+(\w+\.\w+)\s*\.iter\(\)\s*\{\s*(self\.\w+)\s*\.remove\(\s*&?\s*(\w+)\s*\)\s*;\s*\}", re.S)
        pat_end = re.compile(r"\s*Ok\(\(\)\)\s*$", re.S)
        while i < len(rest):
            m = pat_ext.match(rest, i)
            if m and all(x in fld for x in m.groups()):
                stmts.append(".extendDiff %s %s %s" % tuple(fld[x] for x in m.groups())); i = m.end(); continue
            m = pat_for.match(rest, i)
            if m and m.group(1) == m.group(4) and m.group(2) in fld and m.group(3) in fld:
                stmts.append(".removeEach %s %s" % (fld[m.group(3)], fld[m.group(2)])); i = m.end(); continue
            if pat_end.match(rest, i):
                break
            stmts.append(".unrecognised"); break
    else:
        stmts = [".unrecognised"]
    out.append("/-- the consecutive check `other.prev_accum.is_none() || self.accum != other.prev_accum.unwrap()`\n    and `self.accum = other.accum` were found as expected -/\ndef mergeHeadRecognised : Bool := %s\n\n" % ("true" if ok_head else "false"))
    out.append("/-- body of `merge` after the head, in source order -/\ndef mergeBody : List MergeStmt := [\n  %s]\n" % ",\n  ".join(stmts))
    out.append(FOOTER)
    return "".join(out)


def gen_tables(repo):
    types = strip_comments(open(os.path.join(repo, "src/types.rs")).read())
    out = [HEADER % "src/types.rs (x-list / c-list / tau-list orders)"]
    fields = ["rho", "r", "r_prime", "r_prime_prime", "r_prime_prime_prime", "o", "o_prime", "m", "m_prime",
              "t", "t_prime", "m2", "s", "c"]
    # as_list
    f = find_fn(types, "as_list", "NonRevocProofXList")
    order, splice = None, None
    if f:
        m = re.search(r"vec!\[(.*?)\]", f[1], re.S)
        if m:
            order = re.findall(r"self\.(\w+)", m.group(1))
        ms = re.search(r"ret\.splice\(\s*(\d+)\s*\.\.\s*(\d+)\s*,", f[1])
        if ms and ms.group(1) == ms.group(2):
            splice = int(ms.group(1))
    out.append("/-- `NonRevocProofXList::as_list` order (without the optional m2) -/\ndef xListOrder : List String := %s\n" %
               ("[" + ", ".join('"%s"' % x for x in order) + "]" if order else "[]"))
    out.append("/-- position at which a legacy `m2` is spliced in -/\ndef xListM2Splice : Option Nat := %s\n\n" % ("some %d" % splice if splice is not None else "none"))
    f = find_fn(types, "from_list", "NonRevocProofXList")
    idx = {}
    if f:
        for m in re.finditer(r"(\w+)\s*:\s*seq\[(\d+)\]", f[1]):
            idx[m.group(1)] = int(m.group(2))
    out.append("/-- `NonRevocProofXList::from_list`: field ↦ index into the sequence -/\ndef xListFromIndex : List (String × Nat) := [%s]\n\n" %
               ", ".join('("%s", %d)' % (k, idx[k]) for k in fields if k in idx))
    f = find_fn(types, "as_list", "NonRevocProofCList")
    order = re.findall(r"self\.(\w+)\.to_bytes", f[1]) if f else []
    out.append("/-- `NonRevocProofCList::as_list` order -/\ndef cListOrder : List String := [%s]\n" % ", ".join('"%s"' % x for x in order))
    f = find_fn(types, "as_slice", "NonRevocProofTauList")
    order = re.findall(r"self\.(\w+)\.to_bytes", f[1]) if f else []
    out.append("/-- `NonRevocProofTauList::as_slice` order -/\ndef tauListOrder : List String := [%s]\n" % ", ".join('"%s"' % x for x in order))
    out.append(FOOTER)
    return "".join(out)


def gen_drawsites(repo):
    """every `bn_rand(<CONST>)` call site: (file, enclosing fn, assigned name, constant)"""
    out = [HEADER % "src/prover.rs, src/issuer.rs, src/helpers.rs (random draw sites)"]
    sites = []
    for fname in ("src/prover.rs", "src/issuer.rs", "src/helpers.rs"):
        src = strip_comments(open(os.path.join(repo, fname)).read())
        cut = src.find("#[cfg(test)]\nmod tests")
        if cut > 0:
            src = src[:cut]
        fn_pos = [(m.start(), m.group(1)) for m in re.finditer(r"\bfn\s+(\w+)", src)]
        for m in re.finditer(r"bn_rand\(\s*([A-Za-z_0-9:]+)\s*\)", src):
            const = m.group(1).split("::")[-1]
            if not const.isupper():
                continue
            fn = [n for p, n in fn_pos if p < m.start()][-1]
            line_start = src.rfind("\n", 0, m.start()) + 1
            stmt_start = max(src.rfind(";", 0, m.start()), src.rfind("{", 0, m.start())) + 1
            ctx = src[stmt_start:m.start()]
            ma = re.search(r"let\s+(?:mut\s+)?(\w+)\s*(?::[^=]+)?=\s*$", ctx) or \
                 re.search(r"(\w+)\s*\.insert\([^,]*,\s*$", ctx) or re.search(r"(\w+)\s*:\s*$", ctx)
            name = ma.group(1) if ma else "?"
            sites.append((fname, fn, name, const))
        for m in re.finditer(r"generate_prime_in_range\(\s*([A-Z_]+)\s*,\s*([A-Z_]+)\s*\)", src):
            fn = [n for p, n in fn_pos if p < m.start()][-1]
            sites.append((fname, fn, "e", m.group(1) + "," + m.group(2)))
    out.append("/-- (file, enclosing fn, assigned variable, size constant) of every `bn_rand(CONST)` site -/\ndef drawSites : List (String × String × String × String) := [\n")
    out.append(",\n".join('  ("%s", "%s", "%s", "%s")' % s for s in sorted(set(sites))))
    out.append("]\n")
    # pairing-side randomisers: every field of the two parameter lists is its own `GroupOrderElement::new()`
    prv = strip_comments(open(os.path.join(repo, "src/prover.rs")).read())
    for fn, lname in (("_gen_c_list_params", "nrCListFresh"), ("_gen_tau_list_params", "nrTauFresh")):
        f = find_fn(prv, fn)
        names = []
        if f:
            for m in re.finditer(r"(?:let\s+(\w+)\s*=|\b(\w+)\s*:)\s*GroupOrderElement::new\(\)\s*\?\s*[;,]", f[1]):
                names.append(m.group(1) or m.group(2))
        out.append("\n/-- variables of `%s` assigned a FRESH `GroupOrderElement::new()` (a copy of another variable is not listed) -/\ndef %s : List String := [%s]\n" % (fn, lname, ", ".join('"%s"' % n for n in names)))
    out.append(FOOTER)
    return "".join(out)


def const_values(repo):
    """numeric `pub const NAME: usize = <literal>` of constants.rs"""
    src = strip_comments(open(os.path.join(repo, "src/constants.rs")).read())
    vals = {}
    for m in re.finditer(r"pub\s+const\s+([A-Z_0-9]+)\s*:\s*usize\s*=\s*([\d_]+)\s*;", src):
        vals[m.group(1)] = int(m.group(2).replace("_", ""))
    return vals


def subst_consts(text, vals):
    return re.sub(r"\b[A-Z][A-Z_0-9]{2,}\b", lambda m: ("(%d as usize)" % vals[m.group(0)]) if m.group(0) in vals else m.group(0), text)


def gen_verifier(repo):
    """decision guards of the verifier (and the holder's interval check on e) as expressions / flags"""
    ver = strip_comments(open(os.path.join(repo, "src/verifier.rs")).read())
    prv = strip_comments(open(os.path.join(repo, "src/prover.rs")).read())
    vals = const_values(repo)
    out = [HEADER % "src/verifier.rs, src/prover.rs (decision guards)"]
    i64, us = "i64", "usize"
    # ---- range guard on the response for e
    f = find_fn(ver, "_verify_equality")
    g = ".unrecognised"
    if f:
        m = re.search(r"\bif\s+([^{}]+?)\s*\{\s*return\s+Err", f[1], re.S)
        g = ".absent"
        if m:
            t = subst_consts(m.group(1), vals)
            t = re.sub(r"proof\s*\.\s*e\s*\.\s*is_negative\s*\(\s*\)", "(esign < 0)", t)
            t = re.sub(r"proof\s*\.\s*e\s*\.\s*num_bits\s*\(\s*\)\s*\?\s*as\s+usize", "ebits", t)
            g = parse_bexpr(t, {"esign": (0, i64), "ebits": (1, us)})
    out.append("/-- range guard on the response for `e` in `ProofVerifier::_verify_equality` (true = reject);\n    vars: 0 = sign of `proof.e` (-1, 0, 1), 1 = `proof.e.num_bits()` -/\ndef eRangeGuard : BExpr := %s\n\n" % g)
    # ---- sub-proof count
    f = find_fn(ver, "_check_verify_params_consistency")
    g = ".unrecognised"
    if f:
        m = re.search(r"\bif\s+([^{}]+?)\s*\{\s*return\s+Err", f[1], re.S)
        g = ".absent"
        if m:
            t = re.sub(r"proof\s*\.\s*proofs\s*\.\s*len\s*\(\s*\)", "plen", m.group(1))
            t = re.sub(r"credentials\s*\.\s*len\s*\(\s*\)", "clen", t)
            g = parse_bexpr(t, {"plen": (0, us), "clen": (1, us)})
    out.append("/-- first guard of `_check_verify_params_consistency` (true = reject);\n    vars: 0 = `proof.proofs.len()`, 1 = `credentials.len()` -/\ndef proofLenGuard : BExpr := %s\n\n" % g)
    # ---- omission of the non-revocation part: `else if credential.rev_reg.is_some() { return Err` inside the loop of verify
    f = find_fn(ver, "verify", "ProofVerifier")
    omission = False
    active = False
    if f:
        ml = re.search(r"\bfor\s+idx\s+in\s+0\s*\.\.\s*proof\s*\.\s*proofs\s*\.\s*len\s*\(\s*\)\s*\{(.*)", f[1], re.S)
        if ml:
            body = ml.group(1)
            omission = bool(re.search(r"\}\s*else\s+if\s+credential\s*\.\s*rev_reg\s*\.\s*is_some\s*\(\s*\)\s*\{\s*return\s+Err", body, re.S))
            # the branch is taken iff all four are Some: proof part, revocation public key, registry, registry key
            active = bool(re.search(r"if\s+let\s*\(\s*Some\(\w+\)\s*,\s*Some\(\w+\)\s*,\s*Some\(\w+\)\s*,\s*Some\(\w+\)\s*,?\s*\)\s*=\s*\(\s*proof_item\s*\.\s*non_revoc_proof\s*\.\s*as_ref\(\)\s*,\s*credential\s*\.\s*pub_key\s*\.\s*r_key\s*\.\s*as_ref\(\)\s*,\s*credential\s*\.\s*rev_reg\s*\.\s*as_ref\(\)\s*,\s*credential\s*\.\s*rev_key_pub\s*\.\s*as_ref\(\)\s*,?\s*\)", body, re.S))
    out.append("/-- in the per-sub-proof loop of `ProofVerifier::verify`, the non-revocation branch (taken iff the proof part, the\n    revocation public key, the registry and the registry key are all present) is followed by\n    `else if credential.rev_reg.is_some() { return Err(..) }` -/\ndef omissionGuardInLoop : Bool := %s\n" % ("true" if omission else "false"))
    out.append("/-- the non-revocation branch is guarded by exactly those four `Some`s -/\ndef nrBranchOnFourSomes : Bool := %s\n\n" % ("true" if active else "false"))
    # ---- link between predicate response and equality response, inside the loop, before _verify_ne_predicate
    f = find_fn(ver, "_verify_primary_proof")
    link = False
    if f:
        ml = re.search(r"\bfor\s+ne_proof\s+in\s+primary_proof\s*\.\s*ne_proofs\s*\.\s*iter\s*\(\s*\)\s*\{(.*)", f[1], re.S)
        if ml:
            body = ml.group(1)
            mi = re.search(r"\bif\s+\*?\s*m_hat\s*!=\s*ne_proof\s*\.\s*mj\s*\{\s*return\s+Err", body, re.S)
            mv = re.search(r"_verify_ne_predicate", body)
            mg = re.search(r"let\s+m_hat\s*=\s*primary_proof\s*\.\s*eq_proof\s*\.\s*m\s*\.\s*get\s*\(\s*&\s*ne_proof\s*\.\s*predicate\s*\.\s*attr_name\s*\)", body, re.S)
            link = bool(mi and mv and mg and mg.start() < mi.start() < mv.start())
    hid = False
    if f:
        ml2 = re.search(r"\bfor\s+ne_proof\s+in\s+primary_proof\s*\.\s*ne_proofs\s*\.\s*iter\s*\(\s*\)\s*\{(.*)", f[1], re.S)
        if ml2:
            mh = re.search(r"\bif\s+sub_proof_request\s*\.\s*revealed_attrs\s*\.\s*contains\s*\(\s*&\s*ne_proof\s*\.\s*predicate\s*\.\s*attr_name\s*\)\s*\{\s*return\s+Err", ml2.group(1), re.S)
            mv2 = re.search(r"_verify_ne_predicate", ml2.group(1))
            hid = bool(mh and mv2 and mh.start() < mv2.start())
    out.append("/-- `_verify_primary_proof`: inside the loop over the predicate proofs, a predicate whose attribute the sub-proof reveals\n    (`sub_proof_request.revealed_attrs.contains(&ne_proof.predicate.attr_name)`) is rejected before `_verify_ne_predicate` -/\ndef predicateOnRevealedRejected : Bool := %s\n\n" % ("true" if hid else "false"))
    out.append("/-- `_verify_primary_proof`: inside `for ne_proof in primary_proof.ne_proofs.iter()`, `m_hat = eq_proof.m.get(&ne_proof.predicate.attr_name)`\n    is compared with `ne_proof.mj` (`!=` rejects) before `_verify_ne_predicate` is called for that very proof -/\ndef mjLinkInLoop : Bool := %s\n\n" % ("true" if link else "false"))
    # ---- holder: interval of e
    f = find_fn(prv, "_check_signature_correctness_proof")
    g = ".unrecognised"
    off_ok = False
    if f:
        off_ok = bool(re.search(r"let\s+e_offset\s*=\s*p_cred_sig\s*\.\s*e\s*\.\s*sub\s*\(\s*&\s*LARGE_E_START_VALUE\s*\)\s*\?\s*;", f[1]))
        m = re.search(r"\bif\s+(e_offset[^{}]+?)\s*\{\s*return\s+Err", f[1], re.S)
        g = ".absent"
        if m:
            t = subst_consts(m.group(1), vals)
            t = re.sub(r"e_offset\s*\.\s*is_negative\s*\(\s*\)", "(osign < 0)", t)
            t = re.sub(r"e_offset\s*\.\s*num_bits\s*\(\s*\)\s*\?\s*as\s+usize", "obits", t)
            g = parse_bexpr(t, {"osign": (0, i64), "obits": (1, us)})
    out.append("/-- holder-side interval guard in `Prover::_check_signature_correctness_proof` (true = reject);\n    vars: 0 = sign of `e_offset`, 1 = `e_offset.num_bits()` -/\ndef holderEGuard : BExpr := %s\n" % g)
    out.append("/-- `e_offset = p_cred_sig.e - LARGE_E_START_VALUE` -/\ndef holderEOffsetIsEMinusStart : Bool := %s\n" % ("true" if off_ok else "false"))
    # ---- common attributes: first value stored, later ones compared, per sub-proof, hidden attributes only
    f = find_fn(ver, "verify", "ProofVerifier")
    common_ok = False
    hidden_ok = False
    if f:
        b = f[1]
        store = re.search(r"let\s+x\s*=\s*entry\s*\.\s*get_mut\s*\(\s*\)\s*;\s*match\s+x\s*\{\s*Some\s*\(\s*v\s*\)\s*=>\s*\{\s*if\s+v\s*!=\s*m_hat\s*\{\s*return\s+Err", b, re.S)
        first = re.search(r"None\s*=>\s*\{\s*\*\s*x\s*=\s*Some\s*\(\s*m_hat\s*\.\s*try_clone\s*\(\s*\)\s*\?\s*\)\s*;", b, re.S)
        names = re.search(r"let\s+attr_names\s*:\s*Vec<String>\s*=\s*self\s*\.\s*common_attributes\s*\.\s*keys\s*\(\s*\)\s*\.\s*map\s*\(\s*\|s\|\s*s\.to_string\(\)\s*\)\s*\.\s*collect\s*\(\s*\)\s*;\s*for\s+attr_name\s+in\s+attr_names\s*\{", b, re.S)
        missing = re.search(r"\}\s*else\s*\{\s*return\s+Err\s*\(\s*err_msg!\s*\(\s*ProofRejected\s*,\s*\"Blinded value for common attribute", b, re.S)
        common_ok = bool(store and first and names and missing)
        hid = re.search(r"let\s+is_hidden_attr\s*=\s*\(\s*credential\s*\.\s*credential_schema\s*\.\s*attrs\s*\.\s*contains\s*\(\s*&attr_name\s*\)\s*\|\|\s*credential\s*\.\s*non_credential_schema\s*\.\s*attrs\s*\.\s*contains\s*\(\s*&attr_name\s*\)\s*\)\s*&&\s*!\s*credential\s*\.\s*sub_proof_request\s*\.\s*revealed_attrs\s*\.\s*contains\s*\(\s*&attr_name\s*\)\s*;\s*if\s*!\s*is_hidden_attr\s*\{\s*return\s+Err", b, re.S)
        hidden_ok = bool(hid and names and names.end() <= hid.start())
    out.append("\n/-- common attributes in `ProofVerifier::verify`: for EVERY declared name (keys of `common_attributes`), per sub-proof, the first\n    response is stored (`None => *x = Some(m_hat)`), later ones are compared (`if v != m_hat { return Err`), a missing one is an error -/\ndef commonPassShape : Bool := %s\n" % ("true" if common_ok else "false"))
    out.append("/-- … and a name that is not a hidden attribute of the sub-proof ((schema ∪ non-schema) ∖ revealed) is an error, checked first -/\ndef commonHiddenGuard : Bool := %s\n" % ("true" if hidden_ok else "false"))
    # ---- non-revocation: the legacy field is read only when legacy proofs are accepted
    f = find_fn(ver, "_verify_non_revocation_proof")
    legacy_ok = False
    if f:
        legacy_ok = bool(re.search(r"let\s+mut\s+m2\s*=\s*bignum_to_group_element_reduce\s*\(\s*&\s*primary_proof\s*\.\s*eq_proof\s*\.\s*m2\s*\)\s*\?\s*;\s*let\s+mut\s+c\s*=\s*ch_num_z\s*\.\s*mod_neg\s*\(\s*\)\s*\?\s*;\s*if\s+accept_legacy\s*\{\s*if\s+let\s+Some\s*\(\s*sub_m2\s*\)\s*=\s*nonrev_proof\s*\.\s*x_list\s*\.\s*m2\s*\.\s*as_ref\s*\(\s*\)\s*\{\s*c\s*=\s*ch_num_z\s*;\s*m2\s*=\s*\*\s*sub_m2\s*;\s*\}\s*\}", f[1], re.S))
    out.append("/-- `_verify_non_revocation_proof`: `m2` is the primary proof's response and `c = -c_H`, replaced by `x_list.m2` / `c_H`\n    only inside `if accept_legacy { if let Some(sub_m2) = … }` -/\ndef legacyM2OnlyWhenAccepted : Bool := %s\n" % ("true" if legacy_ok else "false"))
    # ---- issuer: the blinded-secrets check folds over the DECLARED hidden attributes
    iss = strip_comments(open(os.path.join(repo, "src/issuer.rs")).read())
    f = find_fn(iss, "_check_blinded_credential_secrets_correctness_proof")
    fold_ok = False
    if f:
        fold_ok = bool(re.search(r"let\s+u_cap\s*=\s*blinded_cred_secrets\s*\.\s*hidden_attributes\s*\.\s*iter\s*\(\s*\)\s*\.\s*fold\s*\(", f[1], re.S)) and \
                  bool(re.search(r"blinded_cred_secrets_correctness_proof\s*\.\s*m_caps\s*\.\s*get\s*\(\s*attr\s*\)\s*\.\s*ok_or_else", f[1], re.S))
    out.append("/-- `_check_blinded_credential_secrets_correctness_proof`: `u_cap` is folded over `blinded_cred_secrets.hidden_attributes`\n    (the declared set), each response taken from `m_caps.get(attr).ok_or_else(..)` -/\ndef blindedFoldOverDeclaredHidden : Bool := %s\n" % ("true" if fold_ok else "false"))
    # ---- request consistency: SET equality of revealed names and of predicates
    f = find_fn(ver, "_check_verify_params_consistency")
    rev_eq = pred_eq = False
    if f:
        rev_eq = bool(re.search(r"let\s+proof_revealed_attrs\s*=\s*BTreeSet::from_iter\s*\(\s*proof_for_credential\s*\.\s*primary_proof\s*\.\s*eq_proof\s*\.\s*revealed_attrs\s*\.\s*keys\s*\(\s*\)\s*\.\s*cloned\s*\(\s*\)\s*,?\s*\)\s*;\s*if\s+proof_revealed_attrs\s*!=\s*credential\s*\.\s*sub_proof_request\s*\.\s*revealed_attrs\s*\{\s*return\s+Err", f[1], re.S))
        pred_eq = bool(re.search(r"let\s+proof_predicates\s*=\s*proof_for_credential\s*\.\s*primary_proof\s*\.\s*ne_proofs\s*\.\s*iter\s*\(\s*\)\s*\.\s*map\s*\(\s*\|ne_proof\|\s*ne_proof\s*\.\s*predicate\s*\.\s*clone\s*\(\s*\)\s*\)\s*\.\s*collect::<BTreeSet<Predicate>>\s*\(\s*\)\s*;\s*if\s+proof_predicates\s*!=\s*credential\s*\.\s*sub_proof_request\s*\.\s*predicates\s*\{\s*return\s+Err", f[1], re.S))
    out.append("/-- `_check_verify_params_consistency`: the SET of names in `eq_proof.revealed_attrs` must equal the requested set -/\ndef revealedSetEquality : Bool := %s\n" % ("true" if rev_eq else "false"))
    out.append("/-- … and the SET of proven predicates must equal the requested set (a repeated predicate proof cannot stand in for a missing one) -/\ndef predicateSetEquality : Bool := %s\n" % ("true" if pred_eq else "false"))
    # ---- holder: names covered by the key proof
    f = find_fn(prv, "_check_credential_key_correctness_proof")
    exempt_ok = names_ok = False
    if f:
        exempt_ok = bool(re.search(r"for\s+r_key\s+in\s+pr_pub_key\s*\.\s*r\s*\.\s*keys\s*\(\s*\)\s*\{\s*if\s*!\s*correctness_names\s*\.\s*contains\s*\(\s*r_key\s*\)\s*\{\s*if\s+r_key\s*!=\s*\"master_secret\"\s*\{\s*return\s+Err", f[1], re.S))
        names_ok = bool(re.search(r"for\s+correctness_name\s+in\s*&\s*correctness_names\s*\{\s*if\s*!\s*pr_pub_key\s*\.\s*r\s*\.\s*contains_key\s*\(\s*correctness_name\s*\.\s*as_str\s*\(\s*\)\s*\)\s*\{\s*return\s+Err", f[1], re.S))
    out.append("/-- `_check_credential_key_correctness_proof`: every generator of the key must be named in `xr_cap`, the ONLY exemption being the\n    legacy name `master_secret` -/\ndef keyProofExemptsOnlyMasterSecret : Bool := %s\n" % ("true" if exempt_ok else "false"))
    out.append("/-- … and every name of `xr_cap` must be a generator of the key (no exemption), before `r[key]` is indexed -/\ndef keyProofNamesMustBeInKey : Bool := %s\n" % ("true" if names_ok else "false"))
    # ---- issuer: the committed-attribute loop runs over the DECLARED commitments
    f = find_fn(iss, "_check_blinded_credential_secrets_correctness_proof")
    comm_ok = False
    if f:
        comm_ok = bool(re.search(r"for\s*\(\s*key\s*,\s*value\s*\)\s+in\s*&\s*blinded_cred_secrets\s*\.\s*committed_attributes\s*\{", f[1], re.S)) and \
                  bool(re.search(r"\.\s*r_caps\s*\.\s*get\s*\(\s*key\s*\)\s*\.\s*ok_or_else", f[1], re.S))
    out.append("/-- `_check_blinded_credential_secrets_correctness_proof`: the commitment loop runs over `blinded_cred_secrets.committed_attributes`\n    (every declared commitment needs `m_caps` and `r_caps` entries) -/\ndef blindedLoopOverDeclaredCommitted : Bool := %s\n" % ("true" if comm_ok else "false"))
    # ---- verifier: the per-proof record of common-attribute responses is cleared at the start of every verify() call
    f = find_fn(ver, "verify")
    reset_ok = False
    if f:
        m1 = re.search(r"for\s+(\w+)\s+in\s+self\s*\.\s*common_attributes\s*\.\s*values_mut\s*\(\s*\)\s*\{\s*\*\s*\1\s*=\s*None\s*;\s*\}", f[1], re.S)
        m2 = re.search(r"for\s+idx\s+in\s+0\s*\.\.\s*proof\s*\.\s*proofs\s*\.\s*len\s*\(\s*\)", f[1], re.S)
        reset_ok = bool(m1 and m2 and m1.start() < m2.start())
    out.append("/-- `ProofVerifier::verify` clears the recorded common-attribute responses before it walks the sub-proofs (the verdict on a proof\n    is a function of that proof: the model's `verify` starts from an empty table) -/\ndef commonStateResetPerCall : Bool := %s\n" % ("true" if reset_ok else "false"))
    # ---- holder: the pairing equations of _test_witness_signature, in source order
    f = find_fn(prv, "_test_witness_signature")
    rows = []
    if f:
        body = f[1]
        for m in re.finditer(r"let\s+(\w+)\s*=\s*Pair::pair2\s*\(", body):
            close = balanced(body, m.end() - 1, "(", ")")
            args, depth, cur = [], 0, ""
            seg = body[m.end():close].rstrip()
            if seg.endswith(")"):
                seg = seg[:-1]
            for ch in seg:
                if ch in "([{":
                    depth += 1
                elif ch in ")]}":
                    depth -= 1
                if ch == "," and depth == 0:
                    args.append(cur)
                    cur = ""
                else:
                    cur += ch
            if cur.strip():
                args.append(cur)
            norm = [re.sub(r"\s+|&|\?|\.as_ref\(\)", "", a) for a in args]
            c = re.search(r"\bif\s+([^{}]*\b%s\b[^{}]*?)\s*\{\s*return\s+Err" % re.escape(m.group(1)), body[close:], re.S)
            cond = re.sub(r"\s+|\?", "", c.group(1)).replace(m.group(1), "_") if c else "unchecked"
            rows.append(norm + [cond])
    lit = "[" + ",\n   ".join("[" + ", ".join(json.dumps(x) for x in r) + "]" for r in rows) + "]"
    out.append("/-- `Prover::_test_witness_signature`: every `Pair::pair2(p1, q1, p2, q2)` product in source order with the test that\n    refuses the credential (`_` = the product) -/\ndef witnessSigPairings : List (List String) :=\n  %s\n" % lit)
    out.append(FOOTER)
    return "".join(out)


GENERATORS = {
    "Constants.lean": gen_constants,
    "Predicate.lean": gen_predicate,
    "Index.lean": gen_index,
    "Merge.lean": gen_merge,
    "Tables.lean": gen_tables,
    "DrawSites.lean": gen_drawsites,
    "Verifier.lean": gen_verifier,
}


def main():
    ap = argparse.ArgumentParser()
    ap.add_argument("--repo", default=os.environ.get("VERIF_REPO", "/repo"))
    ap.add_argument("--out", default=os.path.join(os.path.dirname(os.path.abspath(__file__)), "..", "lean", "CLModel", "Gen"))
    ap.add_argument("--json", default=None)
    a = ap.parse_args()
    os.makedirs(a.out, exist_ok=True)
    report = {}
    for fname, gen in GENERATORS.items():
        try:
            text = gen(a.repo)
        except Exception as ex:  # a source we cannot even scan: emit a file that fails to build
            text = "/- GENERATED: translator failure: %s -/\n#eval (throw (IO.userError \"translator failure in %s\") : IO Unit)\n" % (str(ex).replace("-/", ""), fname)
        path = os.path.join(a.out, fname)
        old = open(path).read() if os.path.exists(path) else None
        if old != text:
            with open(path, "w") as fh:
                fh.write(text)
        report[fname] = {"sha256": hashlib.sha256(text.encode()).hexdigest(), "changed": old != text,
                         "unrecognised": text.count(".unrecognised")}
    if a.json:
        with open(a.json, "w") as fh:
            json.dump(report, fh, indent=1)
    else:
        print(json.dumps(report))


if __name__ == "__main__":
    main()
