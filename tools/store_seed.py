#!/usr/bin/env python3
"""store_seed.py <prop> <n>: copy a confirmed seeded change from /tmp/mut/out/<prop>/ to
/verif/seeded/<prop>-<n>/ (patch.diff, demo.rs, meta.json).  meta.json = the author's
description + what was run to confirm it + what the checks reported with it applied."""
import json, os, shutil, sys
P, N = sys.argv[1], sys.argv[2]
O = "%s/%s" % (os.environ.get("MUT_O", "/tmp/mut/out"), P)
SN = str(int(N) + int(os.environ.get("SEED_OFFSET", "0")))
D = "/verif/seeded/%s-%s" % (P, SN)
conf = json.load(open("%s/confirm_%s.json" % (O, N)))
if not conf.get("confirmed"):
    sys.exit("not confirmed: %s %s" % (P, N))
meta = json.load(open("%s/meta_%s.json" % (O, N)))
os.makedirs(D, exist_ok=True)
shutil.copy("%s/patch_%s.diff" % (O, N), D + "/patch.diff")
shutil.copy("%s/demo_%s.rs" % (O, N), D + "/demo.rs")
det = []
dp = "%s/detect_%s.txt" % (O, N)
if os.path.exists(dp):
    cur = None
    for line in open(dp):
        line = line.rstrip("\n")
        if line.startswith("== "):
            cid, rc = line[3:].split(" rc=")
            cur = {"check": "./check %s --tier quick" % cid, "exit": int(rc), "lines": []}
            det.append(cur)
        elif cur is not None:
            cur.setdefault("all", []).append(line[:300])
    for d in det:
        al = d.pop("all", [])
        d["violation_lines"] = sum(1 for l in al if l.startswith("VIOLATION"))
        d["lines"] = [l for l in al if not l.startswith("VIOLATION") and not l.startswith("KNOWN-FINDING")][:4] + [l for l in al if l.startswith("VIOLATION")][:3]
out = {
    "property": P,
    "seed": "%s-%s" % (P, SN),
    "summary": meta.get("summary"),
    "needs": meta.get("needs"),
    "files_changed": meta.get("files_changed"),
    "author": "fresh sub-agent given only the property text and a scratch worktree of /repo",
    "demo": {"file": "demo.rs (drop into tests/ as demo_%s_%s.rs)" % (P, N),
             "cmd": "cargo test --offline --features verif --test demo_%s_%s" % (P, N),
             "author_cmd": meta.get("demo_cmd"),
             "note": "C06-2 was run with --no-default-features --features serde (pure-Rust backend); C18-1/2 with the author's two-backend command" if P in ("C06", "C18") else None},
    "confirmed_by_me": {
        "where": "scratch worktree %s/%s at /repo HEAD (removed afterwards)" % (os.environ.get("MUT_W", "/tmp/mut"), P),
        "ran": ["git apply patch.diff", "cargo build --offline", "cargo build --offline --no-default-features --features serde",
                "cargo test --workspace --no-fail-fast --offline", "demo with the change", "git checkout -- . ; demo without the change"],
        "build_default_rc": conf["build_default_rc"], "build_rust_backend_rc": conf["build_rust_rc"],
        "suite_rc_with_change": conf["suite_rc"], "suite_with_change": conf["suite"],
        "demo_with_change_rc": conf["demo_with_change_rc"], "demo_with_change": conf["demo_with_change"],
        "demo_without_change_rc": conf["demo_without_change_rc"], "demo_without_change": conf["demo_without_change"]},
    "history": json.load(open("/verif/seeded/notes.json")).get("%s-%s" % (P, SN)) if os.path.exists("/verif/seeded/notes.json") else None,
    "detection": det,
    "detected": any(d["exit"] == 1 and d["violation_lines"] > 0 for d in det),
}
json.dump(out, open(D + "/meta.json", "w"), indent=1)
print(D, "detected" if out["detected"] else "NOT DETECTED")
