#!/bin/bash
# try_seed.sh <prop> <n> [check ids...]: apply a seeded change to /repo, run the quick checks, undo.
# Output: /tmp/mut/out/<prop>/detect_<n>.txt
P=$1; N=$2; shift 2; CHECKS=${@:-$P}
O=${MUT_O:-/tmp/mut/out}/$P
cd /verif
git -C /repo diff --quiet || { echo "/repo not clean"; exit 2; }
git -C /repo apply $O/patch_$N.diff || exit 3
: > $O/detect_$N.txt
for C in $CHECKS; do
  timeout 1800 ./check $C --tier quick > $O/.chk 2>&1; RC=$?
  echo "== $C rc=$RC" >> $O/detect_$N.txt
  grep -E "VIOLATION|KNOWN-FINDING|\[check\] (violation|mismatch|broken)|tier=quick" $O/.chk | cut -c1-400 >> $O/detect_$N.txt
done
git -C /repo checkout -- .
cat $O/detect_$N.txt
