#!/usr/bin/env python3
"""Regenerates section 11 of DESIGN.md (seeded changes and what catches them) from seeded/*/meta.json."""
import json, glob, os, re
rows = []
for d in sorted(glob.glob('/verif/seeded/*/meta.json')):
    m = json.load(open(d))
    summ = re.sub(r'\s+', ' ', (m.get('summary') or '').strip())
    if len(summ) > 300:
        summ = summ[:297] + '...'
    checks = []
    for dd in m['detection']:
        cid = dd['check'].split()[1]
        first = [l for l in dd['lines'] if 'violation:' in l or 'broken obligation' in l or 'mismatch' in l]
        orc = ''
        if first:
            mm = re.search(r'violation: (\S+)', first[0])
            orc = mm.group(1) if mm else ('broken obligation' if 'broken' in first[0] else 'correspondence')
        checks.append('%s%s' % (cid, (' (' + orc + ')') if orc and dd['exit'] == 1 else (' (exit 0)' if dd['exit'] == 0 else '')))
    rows.append((m['seed'], summ, '; '.join(checks), m.get('history') or '', m.get('detected')))
n = len(rows)
nd = sum(1 for r in rows if r[4])
PROSE = open('/verif/seeded/DESIGN11_prose.md').read().replace('@N@', str(n)).replace('@ND@', str(nd))
out = [PROSE, '', '| seed | change (author\'s summary) | reported by (first oracle of the last run) | history |', '|---|---|---|---|']
for r in rows:
    out.append('| %s | %s | %s | %s |' % (r[0], r[1].replace('|', '/'), r[2].replace('|', '/'), r[3].replace('|', '/')))
out.append('')
out.append(open('/verif/seeded/DESIGN11_tail.md').read())
txt = '\n'.join(out)
p = '/verif/DESIGN.md'
s = open(p).read()
if '## 11. Seeded changes and what catches them' in s:
    s = s[:s.index('## 11. Seeded changes and what catches them')]
open(p, 'w').write(s.rstrip('\n') + '\n\n' + txt)
print(n, 'seeds,', nd, 'detected')
