#!/bin/bash
# confirm_seed.sh <prop> <n>: confirm a seeded change in its scratch worktree /tmp/mut/<prop>:
#   compiles (both feature sets), suite green with the change, demo fails with / passes without.
# Output: /tmp/mut/out/<prop>/confirm_<n>.json
P=$1; N=$2; W=${MUT_W:-/tmp/mut}/$P; O=${MUT_O:-/tmp/mut/out}/$P
export CARGO_NET_OFFLINE=true
cd $W || exit 2
git checkout -q -- . ; git clean -fdq tests/ 2>/dev/null
DEMO=demo_${P}_${N}
r() { "$@" > $O/.log 2>&1; echo $?; }
git apply $O/patch_$N.diff || { echo "{\"apply\": false}" > $O/confirm_$N.json; exit 1; }
B1=$(r cargo build --offline)
B2=$(r cargo build --offline --no-default-features --features serde)
S=$(r cargo test --workspace --no-fail-fast --offline); SUITE=$(grep -E "^test result" $O/.log | tr '\n' ';')
cp $O/demo_$N.rs tests/$DEMO.rs
DW=$(if [ -n "$DEMO_CMD" ]; then r sh -c "$DEMO_CMD"; else r cargo test --offline ${DEMO_FLAGS:---features verif} --test $DEMO; fi); DWL=$(grep -E "^test result|panicked" $O/.log | head -3 | tr '\n' ';' | tr '"' "'")
git checkout -q -- . 
DN=$(if [ -n "$DEMO_CMD" ]; then r sh -c "$DEMO_CMD"; else r cargo test --offline ${DEMO_FLAGS:---features verif} --test $DEMO; fi); DNL=$(grep -E "^test result" $O/.log | head -2 | tr '\n' ';')
rm -f tests/$DEMO.rs
python3 - <<PY
import json
json.dump({"apply": True, "build_default_rc": $B1, "build_rust_rc": $B2, "suite_rc": $S, "suite": "$SUITE",
           "demo_with_change_rc": $DW, "demo_with_change": "$DWL", "demo_without_change_rc": $DN, "demo_without_change": "$DNL",
           "confirmed": $B1 == 0 and $B2 == 0 and $S == 0 and $DW != 0 and $DN == 0}, open("$O/confirm_$N.json", "w"), indent=1)
PY
cat $O/confirm_$N.json | tr '\n' ' '; echo
